#!/usr/bin/env python3
"""Regenerates /verif/MANIFEST.json from the table below (kept in one place so it stays valid)."""
import json
import os

HERE = os.path.dirname(os.path.dirname(os.path.abspath(__file__)))

NA = {
    "C01": "render-size contract: a pure function of (widget tree, size, focus, encoding); no schedule, clock, fault or second party for a simulator to control. Generating trees would be input generation, not simulation.",
    "C02": "canvas algebra: pure, stateless composition of immutable values compared with a grid model; nothing for a scheduler or fault injector to decide.",
    "C03": "text layout: pure function of (text, width, wrap, align, encoding).",
    "C09": "cursor/mouse geometry agreement: a relation between pure computations at a single widget state; no history, no environment.",
    "C11": "width arithmetic: pure string functions; the encoding mode is configuration, not environment.",
    "C16": "monitored lists: a sequential data structure against the built-in list; callbacks are synchronous and nothing outside the caller decides anything.",
    "C17": "attribute transport: pure mapping markup -> runs -> SGR (its terminal-side clause is exercised, unclaimed, by C04's attribute comparison).",
    "C18": "colour specifications: pure parse/describe functions over a finite domain.",
    "C19": "space partitioning: pure integer arithmetic.",
}

# property -> (engine name, level category, level text, level note, technique, design ref)
CLAIMED = {
    "C14": (
        "signals",
        "exploration",
        "Seeded search over histories of connect/disconnect/emit with scripted re-entrant handlers and scheduled "
        "garbage-collection points (last-reference drops and gc.collect() inside emits and inside connect() itself), weak arguments and "
        "senders that are alive but falsy, sender classes up to three levels deep, checked per emit interval "
        "against a registry model with must/may/never-call sets, argument order, return value and weakref liveness; one history in ten drives the bundled "
        "emitters (CheckBox, RadioButton groups, Button incl. the connect / disconnect forms its documentation gives for a callback with user data and for the constructor's on_press, list walkers) through their mutators, keys and mouse presses against the documented emission contract, also with a handler that presses the button again while its click is being delivered. "
        "Sampling, not proof: a clean batch is evidence that no interleaving of the sampled shapes breaks the property.",
        "Trusts CPython refcount/GC semantics with gc disabled during a run; handlers never raise; liveness of weak "
        "arguments is observed by polling at handler and operation boundaries.",
        "deterministic simulation: seeded re-entrancy and GC-timing schedules against a handler-registry reference model",
        "DESIGN.md section 5, C14",
    ),
}

CLAIMED["C13"] = (
    "loops",
    "exploration",
    "Each of the six bundled event loops (select, asyncio, tornado, twisted, zmq, trio) runs real on a virtual clock "
    "and fake descriptors under seeded user programs: alarms on a time grid, watched pipes with scheduled arrivals "
    "(coinciding with alarm due times, order decided by a tie-break tape), idle callbacks, re-entrant API calls from "
    "callbacks, arbitrary return values, one injected exception (ExitMainLoop, ValueError, a private exception or KeyboardInterrupt; optionally followed by an ExitMainLoop from another callback of "
    "the same turn), a second run() on the same loop object, registrations replaced inside one readiness batch, a watch on descriptor 0, "
    "a second urwid loop object on the same backend and trio's run_async entry. A bounded enumeration runs first: every relative order (ties "
    "included) of two timer expiries and one descriptor arrival x tie-break answers x exception placement (756 scenarios; select "
    "loop in every tier, all six loops in the thorough tier). A trace contract checker evaluates the alarm / "
    "watch / idle / exception clauses on every run and at every point where the loop really waits. Sampling beyond the enumerated set, not proof.",
    "Trusts the seam adapters (SimAsyncioLoop blocking step, SimSelector, SimPoller, trio MockClock + fd wait); "
    "equal due times, removal of fired alarms, and API results during loop shutdown are left unconstrained; GLib loop not installed.",
    "deterministic simulation: seeded timer/readiness schedules with fault injection on a virtual clock, trace contract checker",
    "DESIGN.md section 5, C13",
)

CLAIMED["C05"] = (
    "input",
    "fault_enumeration",
    "For every sampled byte stream the check enumerates EVERY single cut point and, for each, both 'remainder arrives "
    "before complete_wait' and 'timeout fires first', then adds sampled multi-cut schedules (gaps around complete_wait, "
    "short reads, SIGWINCH between fragments, timer/arrival ties both ways) on all six event loops and the synchronous "
    "get_input path (max_wait set beside complete_wait in two thirds of the event-loop schedules); the real Screen reads a fake tty on a virtual clock. Oracles: no exception, byte accounting, no flush of pending bytes sooner than complete_wait after the last fragment, "
    "fragmentation invariance against whole delivery of each actually-flushed group, an implementation-independent token "
    "table (323 key sequences with their documented names generated from the terminals' conventions rather than read from escape.py, X10/SGR mouse, CPR, UTF-8, double-byte characters of the EUC and of the Big5/GBK/UHC kind (trail byte in the ASCII range) in six wide encodings, truncated UTF-8 reported byte by byte), bounded flush. Exhaustive per sampled stream over "
    "single-cut schedules; streams themselves are sampled.",
    "Line discipline not modelled; the invariance reference is urwid's own decoder on whole groups (metamorphic), paired "
    "with the independent token table; EAGAIN/EOF on the tty not injected.",
    "deterministic simulation: enumerated read-fragmentation and timeout schedules on a virtual clock with fake tty",
    "DESIGN.md section 5, C05",
)

CLAIMED["C12"] = (
    "session",
    "fault_enumeration",
    "The whole stack runs real (MainLoop, posix raw Screen, six event loops plus the screen-without-external-loop path, "
    "widgets, a PopUpLauncher (building a new pop-up each time or keeping one object), a second page and an unselectable splash page the application switches to from an input handler, a widget that passes on a "
    "different key, timers that change the tty's signal keys and toggle mouse tracking, ctrl-Z / fg with the terminal checked while the process is stopped) on a fake tty (output stream unbuffered or block-buffered) / virtual clock with RefTerm as the terminal. Each sampled session is run fault-free, "
    "the invocations of every callback category are counted, and the session is re-run for every invocation index x "
    "{ExitMainLoop, ValueError, private exception, KeyboardInterrupt} (crash-point enumeration; capped per session in the quick tier). Checked: "
    "filter->topmost widget (the pop-up or the new page once an earlier event - also of the same batch - has opened / installed it)"
    "->unhandled order with the key the widget returned, raw-byte arrival order, screen equals a fresh render whenever the loop really waits, "
    "exit/propagation of the injected object, and full restoration (buffer, cursor, mouse/paste/focus modes, SGR, charset, "
    "termios list, SIGWINCH/SIGTSTP/SIGCONT handlers), also while suspended; a window change or resume is followed by a size query and a redraw within one simulated second. Exhaustive over crash points of a sampled session; sessions are sampled.",
    "Trusts RefTerm as a model of the user's terminal and the fake termios list (real tty.cfmakecbreak applied); a stopped process is "
    "modelled as: restoration check, job notice on the terminal, SIGCONT (no time passes); callbacks already dequeued when an exception is raised are unconstrained.",
    "deterministic simulation: crash-point enumeration (exception at every callback invocation) over seeded full-stack sessions",
    "DESIGN.md section 5, C12",
)

CLAIMED["C04"] = (
    "display",
    "exploration",
    "The real posix raw Screen draws seeded histories of canvases (generated attribute/charset/text runs incl. wide, combining, "
    "DEC-special and control characters; palette names, aliases, undefined names, AttrSpec objects, None with and without an application-registered None entry; 5 colour depths; 3 output "
    "encodings; back_color_erase on/off) on a fake tty, interleaved with clear(), set_terminal_properties and SIGWINCH delivered at "
    "scheduled points including inside the k-th write() of a frame; one session in eight runs on the normal screen buffer (relative cursor moves). RefTerm, an independent VT100/xterm model, interprets every "
    "byte; after every frame of the right size every cell (text, resolved attributes, charset), the cursor and the scroll counter "
    "are compared, with attribute expectations computed from the palette by a model of the colour notation written independently of urwid.display.common "
    "(AttrSpec's public properties only where the notation leaves a choice). The same canvas object drawn again after a window was shrunk and restored must be repainted. The "
    "HTML back-end is checked on the same canvases. Sampling, not proof.",
    "Trusts RefTerm (hand-written from the DEC/xterm documents; no independent emulator is available offline) and its xterm-like "
    "resize behaviour; blank cells compared by effective background and underline only; one known finding (C0 control characters "
    "in UTF-8 text) masks frames that contain such characters.",
    "deterministic simulation: seeded frame/resize schedules with SIGWINCH injected at write granularity, reference-terminal oracle",
    "DESIGN.md section 5, C04",
)

CLAIMED["C15"] = (
    "vterm",
    "exploration",
    "urwid.vterm.TermCanvas is fed seeded program output (reference subset: printable runs with autowrap, CR/LF/BS, cursor "
    "addressing incl. origin mode, EL/ED, ICH/DCH/ECH, IL/DL, DECSTBM, IND/RI/NEL, SGR colours, DSR/CPR/DA, multi-byte single-width "
    "characters; outside it: tabs, other modes, charsets, OSC, double-width text, "
    "huge/zero/missing parameters, truncated sequences, C1 bytes, invalid UTF-8, random bytes) chunked at sampled byte boundaries, "
    "with resizes at any byte boundary, scroll-back moves and focus changes in between. Checked after every piece: no exception, "
    "grid/cursor/region/canvas-shape invariants, well-formed replies, chunking invariance, and cell-by-cell agreement (text, cursor, "
    "colours, replies, scroll-back) with RefTerm dialect V while the stream stays in the named subset. Sampling, not proof.",
    "Trusts RefTerm as the VT100 reference (hand-written from the DEC/xterm documents); comparison stops where terminals are not "
    "uniform (non-printing operations on a pending wrap, column after IL/DL, erase under reverse video); parameters capped at 10^5; "
    "three known findings of the SGR colour state mask colour comparisons of streams that trigger them; 12% of the runs drive the "
    "Terminal widget in a real MainLoop with pty.fork/os.kill/waitpid replaced (read chunking, EWOULDBLOCK, hang-up, resize).",
    "deterministic simulation: seeded output chunking and resize placement, reference-terminal (VT100 model) oracle",
    "DESIGN.md section 5, C15",
)

CLAIMED["C06"] = (
    "cache",
    "exploration",
    "Two widget trees are built from one generated spec and driven through the same seeded history of render/rows calls on the "
    "root or any subtree (sizes, focus), public mutators (incl. ListBox.shift_focus, set_focus_valign and replacing the body by a walker of the old kind without a modified signal), contents/walker edits, focus changes, key and mouse input, and canvas "
    "lifetime events (hold a returned canvas, drop one, gc.collect()). One tree lives with CanvasCache as an application's tree "
    "does; on the twin every widget is _invalidate()d before every operation, i.e. it is urwid with the cache emptied first. "
    "Content, cursor, rows(), input results and exceptions must agree at every step, and every held canvas is re-read after every "
    "later step (cached canvases are never modified). Sampling, not proof.",
    "Sound as long as urwid is deterministic given the call sequence; run boundaries are normalised away; Scrollable trees are "
    "masked by a known finding (state resolved inside render()), and differences that follow a diverged Edit view-shift flag by another.",
    "deterministic simulation: seeded render/mutation/canvas-lifetime schedules, cached tree vs cache-defeated twin (differential oracle)",
    "DESIGN.md section 5, C06",
)

CLAIMED["C20"] = (
    "widgets-scroll",
    "exploration",
    "Seeded histories over Scrollable(Text | Pile of Text/Edit/Button/Divider | fixed widget), optionally under a ScrollBar: "
    "scrolling keys, keys the wrapped widget consumes, wheel events, clicks, set_scrollpos(any int), content growth/shrinkage, "
    "resizes and focus changes, with render as an explicit step so that several actions are batched before one render and resizes "
    "land between an action and the render that resolves it. At every render the view must be rows p..p+h of the wrapped widget's "
    "full rendering at the child width with 0 <= p <= max(0,total-h) and get_scrollpos() == p; the scrollbar is drawn iff the "
    "content is taller than the view, its parts are contiguous, non-negative and sum to h, the thumb is at the top iff p == 0 and "
    "never moves up when p does not decrease; a key handled by the wrapped widget does not also scroll; a key the wrapped widget leaves is used exactly when the Scrollable's command map (the shared one, or in a fifth of the sessions one of its own with vi-style keys) binds it to a scroll command; set_scrollpos(k), an "
    "unhandled wheel event and a single scrolling key lead to the expected position. A ListBox under a ScrollBar (absolute and relative protocol) is driven "
    "too, and 15% of the Scrollable histories run as timed events through the real MainLoop + Screen + event loop with the clauses "
    "evaluated (also on the RefTerm grid) whenever the loop waits. Sampling, not proof.",
    "The slice model uses the wrapped widget's own full rendering (text layout is trusted); views narrower than the scrollbar are "
    "skipped; two known findings about the relative (ListBox) scrollbar protocol counting items instead of rows.",
    "deterministic simulation: seeded event/render batching and resize placement against a slice-of-full-render model",
    "DESIGN.md section 5, C20",
)

CLAIMED["C10"] = (
    "widgets-edit",
    "exploration",
    "Seeded histories on Edit (ASCII, accented, double-width and combining characters, newlines; widths 1-20; wrap space/any/clip; "
    "align; multiline; allow_tab; mask) and on IntEdit/IntegerEdit/FloatEdit: printable characters, cursor keys, home/end, "
    "backspace/delete, enter, tab, unknown keys, clicks at any cell, set_edit_text/set_edit_pos, with render (focus on/off) and "
    "width changes as explicit steps because the view shift and the preferred column are state set by them. After every step: text "
    "and offset equal a reference editor (display-row geometry from a fresh twin through urwid's layout), handled/unhandled result, "
    "offset bounds, cursor drawn on the character at the offset, clicks land on the character displayed by the last render, change/"
    "postchange signal order and arguments, numeric alphabets (also against non-ASCII characters with the Unicode digit property) and leading-zero trimming; a fifth of the Edit histories use bytes "
    "(UTF-8) captions and texts, where the offset must stay on character boundaries. 10% of the histories run as timed events "
    "through the real MainLoop + Screen + event loop: MainLoop makes the calls, hooks on the Edit hand each one to the same "
    "per-operation comparison, and the terminal's cursor is compared with the Edit's at every wait. Sampling, not proof.",
    "Text layout is trusted for geometry (C03); double-width characters only at widths >= 2; two known findings "
    "(stale view-shift flag at a click, zero-width-only rows in the layout) mask the histories that trigger them.",
    "deterministic simulation: seeded input/render/resize interleavings against a reference editor model",
    "DESIGN.md section 5, C10",
)

CLAIMED["C07"] = (
    "widgets-listbox",
    "exploration",
    "Seeded histories on ListBox over SimpleListWalker, SimpleFocusListWalker and a minimal custom walker (0-10 flow items: Text of "
    "0/1/many rows, Edit, Button, CheckBox, Divider, Pile, zero-row widgets, items taller than the box): navigation keys, characters, "
    "button-1 presses and wheel events, set_focus (any coming_from), set_focus_valign, focus_position writes (also to positions that do not exist), walker insert/delete/"
    "replace/clear and the other list methods, lists emptied and refilled in place, resizes 1x1..30x12, with render as an explicit step because focus and alignment requests are deferred until a size "
    "is known and resolved by whichever of render/keypress/mouse_event comes first. At every render: no exception, the rows are a "
    "contiguous slice of the concatenated item renderings followed only by blanks, a row of the focus item (and its cursor row) is "
    "visible, get_cursor_coords() reports the cursor drawn, for the two bundled walkers the order the walker protocol yields is the order of the list, no blank above the first item, trailing blanks only when scrolled to the top, clicks focus the clicked selectable item, "
    "keypress returns None or the key. 12% of the histories run as timed events (key / SGR mouse bytes, SIGWINCH, application timers) "
    "through the real MainLoop + Screen + one of the six loops, where batching of events before a redraw is decided by the schedule; "
    "the clauses are then evaluated on the canvas MainLoop drew and on the RefTerm grid whenever the loop waits. Sampling, not proof.",
    "Item renderings are the model (layout trusted); wrap-around walkers and focus-dependent item heights are not generated; when "
    "several slice offsets fit (duplicate rows) any is accepted.",
    "deterministic simulation: seeded user/application interleavings with explicit render and resize steps against a contiguous-slice model",
    "DESIGN.md section 5, C07",
)
CLAIMED["C08"] = (
    "widgets-containers",
    "exploration",
    "Seeded histories on nestings (depth <= 3, <= 10 leaves) of Pile, Columns, GridFlow, Frame, Overlay and ListBox around recording "
    "leaves that log every keypress, mouse_event and render(focus) they receive: navigation keys, characters, button-1 presses, "
    "focus_position and set_focus_path writes (valid and invalid), contents insert/delete/slice assignment/clear, header/footer/body "
    "replacement, Overlay contents assignment, edits made by a leaf from inside its own key handler, resizes and renders; leaves may have a cursor, "
    "initial focus may come through the constructors, ListBoxes sit on three kinds of walker. After every step: focus_position valid and contents[focus_position] is focus (IndexError for "
    "empty containers and invalid assignments, which change nothing), keys only reach leaves on the focus path, unhandled keys come "
    "back unchanged, arrow keys land on selectable children, selectable() follows the contents just set, only the focus path is "
    "rendered with focus, a saved focus path can be written back; an unbound character is offered to the same leaves as in a "
    "freshly built tree with the same contents, options and focus positions (history independence of key delivery; trees without "
    "ListBox). Sampling, not proof.",
    "The focus path is read at the moment a key or focused render reaches a leaf (ListBox resolves pending focus inside keypress/"
    "render); two known findings (ListBox scrolling onto unselectable items; ListBox paging over an item whose height depends on "
    "its own inner focus) are recorded.",
    "deterministic simulation: seeded user/application interleavings on recording leaves against a focus-validity model",
    "DESIGN.md section 5, C08",
)

PENDING = {
    p: "claimed in DESIGN.md; its simulation engine is not built yet in this tree, so no check is registered for it at this commit"
    for p in ()
}


def main():
    checks = []
    for pid in sorted(CLAIMED):
        eng, cat, text, note, tech, ref = CLAIMED[pid]
        checks.append(
            {
                "property_id": pid,
                "quick_cmd": f"./vf check {pid} quick",
                "thorough_cmd": f"./vf check {pid} thorough",
                "evidence_file": f"/verif/evidence/{pid}.json",
                "replay_cmd_template": "./vf replay {path}",
                "engine": eng,
                "level_claimed": {"category": cat, "text": text, "design_ref": ref},
                "level_note": note,
                "technique": tech,
            }
        )
    na = [{"property_id": k, "reason": v} for k, v in sorted(NA.items())]
    na += [{"property_id": k, "reason": v} for k, v in sorted(PENDING.items()) if k not in CLAIMED]
    engines = {}
    for pid, row in CLAIMED.items():
        engines.setdefault(row[0], []).append(pid)
    man = {
        "version": 1,
        "setup_cmd": "./setup.sh",
        "hooks": {
            "guard": "URWID_VERIF_SIM",
            "enable": "no source hooks are needed: every seam is taken from outside the repository (module-attribute proxies, "
            "fd-dispatching os/fcntl/termios wrappers, constructor arguments); checks import urwid from /repo's working tree",
            "baseline_off_cmd": "cd /repo && /venv/bin/python -m pytest -ra -q -p no:cacheprovider --timeout=900 --continue-on-collection-errors",
            "source_commits": [],
            "add_only": True,
        },
        "engines": [
            {
                "name": name,
                "path": f"/verif/props/{sorted(pids)[0].lower()}.py" if len(pids) == 1 else "/verif/props",
                "serves_properties": sorted(pids),
                "kind_free_text": "deterministic simulation engine on /verif/simkit (seeded scenario -> explicit JSON -> executor with oracles -> reducer/replay)",
            }
            for name, pids in sorted(engines.items())
        ],
        "checks": checks,
        "not_applicable": na,
        "notes": "Technique: deterministic simulation with fault injection (see DESIGN.md). Exit codes: 0 held, 1 VIOLATION, 2 harness error. "
        "Genuine defects repaired in /repo are 'fix:' commits listed in known_findings.json (status fixed); defects recorded but not repaired are status known.",
    }
    with open(os.path.join(HERE, "MANIFEST.json"), "w") as f:
        json.dump(man, f, indent=1)
        f.write("\n")


if __name__ == "__main__":
    main()
