#!/venv/bin/python
"""Regenerate the machine-written blocks of DESIGN.md (section 11) from known_findings.json,
mutants/RESULTS.json and seeded/*/meta.json.  Blocks are delimited by
<!-- NAME:BEGIN --> ... <!-- NAME:END --> markers; everything else in DESIGN.md is hand-written."""

from __future__ import annotations

import glob
import json
import os
import re
import subprocess

HERE = os.path.dirname(os.path.dirname(os.path.abspath(__file__)))


def esc(s: str) -> str:
    return s.replace("|", "/").replace("\n", " ")


def findings_fixed() -> str:
    d = json.load(open(os.path.join(HERE, "known_findings.json")))["entries"]
    out = ["| property | fix commit in /repo | what failed |", "|---|---|---|"]
    for e in d:
        if e["status"] == "fixed":
            out.append(f"| {e['property']} | `{e['commit']}` | {esc(e['what'])[:420]} |")
    n = sum(e["status"] == "fixed" for e in d)
    out.append("")
    out.append(f"{n} entries.")
    return "\n".join(out)


def findings_known() -> str:
    d = json.load(open(os.path.join(HERE, "known_findings.json")))["entries"]
    out = ["| property | id | what fails, and why it is recorded rather than repaired | identified by |", "|---|---|---|---|"]
    for e in d:
        if e["status"] == "known":
            out.append(f"| {e['property']} | `{e['id']}` | {esc(e['what'])[:900]} | {esc(e.get('identified_by', 'clause + signature: ' + e['signature']))[:300]} |")
    return "\n".join(out)


def sensitivity() -> str:
    p = os.path.join(HERE, "mutants", "RESULTS.json")
    if not os.path.exists(p):
        return "(no mutants/RESULTS.json yet)"
    r = json.load(open(p))
    needs = {}
    for m in glob.glob(os.path.join(HERE, "seeded", "*", "meta.json")):
        j = json.load(open(m))
        needs["seeded/" + os.path.basename(os.path.dirname(m))] = j.get("needs_to_manifest", "")
    out = [
        f"Tier `{r['tier']}`, /repo at `{r['repo_head'][:7]}`; each change applied to a scratch worktree of that commit.",
        "",
        "| change | property | result | caught as (first signature) | what the change needs in order to manifest |",
        "|---|---|---|---|---|",
    ]
    for x in r["results"]:
        sig = x["signatures"][0] if x.get("signatures") else x.get("detail", x.get("tail", ""))[:80]
        out.append(f"| `{x['mutant']}` | {x['property']} | {x['status']} | {esc(sig)[:110]} | {esc(needs.get(x['mutant'], 'hand-written mutant (Appendix D)'))[:260]} |")
    c = sum(x["status"] == "caught" for x in r["results"])
    out.append("")
    out.append(f"{c} of {len(r['results'])} caught.")
    return "\n".join(out)


def repo_fix_count() -> str:
    o = subprocess.run(["git", "-C", "/repo", "log", "--oneline", "3840344..HEAD"], capture_output=True, text=True, check=False).stdout.splitlines()
    fixes = [x for x in o if x.split(" ", 1)[1].startswith("fix:")]
    other = [x for x in o if not x.split(" ", 1)[1].startswith("fix:")]
    return f"{len(fixes)} `fix:` commits on top of the pinned snapshot `3840344`, {len(other)} other commits (no hook commits)."


BLOCKS = {"FIXED": findings_fixed, "KNOWN": findings_known, "SENSITIVITY": sensitivity, "REPOFIXES": repo_fix_count}


def main() -> None:
    p = os.path.join(HERE, "DESIGN.md")
    s = open(p).read()
    for name, fn in BLOCKS.items():
        pat = re.compile(rf"(<!-- {name}:BEGIN -->\n).*?(<!-- {name}:END -->)", re.S)
        if not pat.search(s):
            print("marker missing:", name)
            continue
        s = pat.sub(lambda m, fn=fn: m.group(1) + fn() + "\n" + m.group(2), s)
    open(p, "w").write(s)
    print("DESIGN.md blocks regenerated")


if __name__ == "__main__":
    main()
