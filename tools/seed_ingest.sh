#!/bin/sh
# tools/seed_ingest.sh <Cxx> <tag> "<needs>"  - verify and store a seeded change produced in /tmp/seed_<Cxx>_<tag>
set -u
P=$1; TAG=$2; NEEDS=${3:-}
WT=/tmp/seed_${P}_${TAG}
D=/verif/seeded/${P}-${TAG}
mkdir -p $D
git -C $WT diff -- urwid > $D/patch.diff
cp $WT/demo_${P}.py $D/demo.py
sed -i "s#$WT#/tmp/seeded_scratch#g" $D/demo.py
echo "== tests with the change"
( cd $WT && /venv/bin/python -m pytest -ra -q -p no:cacheprovider --timeout=900 --continue-on-collection-errors 2>&1 | tail -1 ) | tee /tmp/seed_tests.txt
echo "== demo on changed tree"; ( cd $WT && timeout 60 /venv/bin/python demo_${P}.py >/tmp/seed_demo_changed.txt 2>&1; echo "exit=$?" ) | tee /tmp/seed_rc_changed.txt; tail -2 /tmp/seed_demo_changed.txt
git -C $WT apply -R $D/patch.diff
echo "== demo on original tree"; ( cd $WT && timeout 60 /venv/bin/python demo_${P}.py >/tmp/seed_demo_orig.txt 2>&1; echo "exit=$?" ) | tee /tmp/seed_rc_orig.txt; tail -2 /tmp/seed_demo_orig.txt
git -C $WT apply $D/patch.diff
/venv/bin/python - "$P" "$TAG" "$NEEDS" <<'PY'
import json,sys
p,tag,needs=sys.argv[1:4]
meta={"property":p,"id":f"{p}-{tag}","needs_to_manifest":needs,
 "tests_with_change":open('/tmp/seed_tests.txt').read().strip(),
 "demo_on_changed_tree":open('/tmp/seed_rc_changed.txt').read().strip()+" :: "+open('/tmp/seed_demo_changed.txt').read().strip()[-300:],
 "demo_on_original_tree":open('/tmp/seed_rc_orig.txt').read().strip()+" :: "+open('/tmp/seed_demo_orig.txt').read().strip()[-200:],
 "what_i_ran":["pytest baseline command inside the scratch worktree with the change applied","demo.py with the change applied and after git apply -R","VERIF_REPO=<worktree> ./vf check "+p+" quick"],
 "written_by":"independent sub-agent given only the property text and a scratch worktree"}
json.dump(meta,open(f'/verif/seeded/{p}-{tag}/meta.json','w'),indent=1)
PY
echo "== check against the changed tree"
VERIF_REPO=$WT VERIF_SKIP_DET=1 VERIF_EVIDENCE_DIR=/tmp/seed_ev ./vf check $P quick 2>&1 | grep "clause\|^$P \|HARN" | cut -c1-220 | head -8
rm -f /verif/replays/${P}-*
