#!/bin/sh
# tools/thorough_all.sh [Cxx ...] - run the thorough tier of every check once (evidence to a scratch dir), print a summary line each
cd "$(dirname "$0")/.." || exit 2
PROPS=${*:-C14 C10 C15 C13 C06 C08 C07 C20 C05 C04 C12}
EV=$(mktemp -d /tmp/verif_thorough_ev.XXXXXX)
for p in $PROPS; do
  s=$(date +%s)
  out=$(VERIF_EVIDENCE_DIR=$EV ./vf check "$p" thorough 2>&1); rc=$?
  echo "$p thorough rc=$rc $(( $(date +%s) - s ))s $(echo "$out" | tail -1)"
  if [ $rc -ne 0 ]; then echo "$out" | grep -A4 "^VIOLATION\|HARNESS" | cut -c1-500; fi
done
rm -rf "$EV"
