#!/venv/bin/python
"""tools/funcreach.py Cxx [n_scenarios] [batch_seed]

Reach measurement: runs the first n generated scenarios (and the corpus / enumerated extras) of a property's
engine in this process under sys.setprofile and lists the functions and methods DEFINED in the files the
property is anchored in (properties.jsonl) that were never entered.  A function that is never entered cannot
be caught breaking: the list is where the generator has to grow (or where the property does not reach).

Output: one line per anchored file "reached/defined", then the unreached qualified names.
"""

from __future__ import annotations

import ast
import json
import os
import sys

HERE = os.path.dirname(os.path.dirname(os.path.abspath(__file__)))
sys.path.insert(0, HERE)
os.environ.setdefault("PYTHONHASHSEED", "0")

from simkit import core, runner  # noqa: E402

import vfmain  # noqa: E402


def defined_functions(path: str) -> dict[int, str]:
    """first line number -> qualified name, for every def in the file (nested defs included)."""
    out = {}
    with open(path) as fh:
        tree = ast.parse(fh.read())

    def walk(node, prefix):
        for ch in ast.iter_child_nodes(node):
            if isinstance(ch, (ast.FunctionDef, ast.AsyncFunctionDef)):
                line = ch.lineno
                out[line] = prefix + ch.name
                walk(ch, prefix + ch.name + ".")
            elif isinstance(ch, ast.ClassDef):
                walk(ch, prefix + ch.name + ".")
            else:
                walk(ch, prefix)

    walk(tree, "")
    return out


def main() -> None:
    prop = sys.argv[1]
    n = int(sys.argv[2]) if len(sys.argv) > 2 else 3000
    seed = int(sys.argv[3]) if len(sys.argv) > 3 else 0
    anchors = []
    with open(os.path.join(HERE, "properties.jsonl")) as fh:
        for line in fh:
            p = json.loads(line)
            if p["id"] == prop:
                anchors = list(p["anchors"]["files"])
    repo = core.REPO_DIR
    files = {os.path.realpath(os.path.join(repo, a)): a for a in anchors if os.path.exists(os.path.join(repo, a))}
    defs = {fp: defined_functions(fp) for fp in files}
    seen: dict[str, set[int]] = {fp: set() for fp in files}

    def prof(frame, event, arg):
        if event == "call":
            fp = frame.f_code.co_filename
            s = seen.get(fp)
            if s is not None:
                s.add(frame.f_code.co_firstlineno)

    engine = vfmain.get_engine(prop)
    extras = runner.load_corpus(prop) + engine.extra_scenarios("quick")
    sys.setprofile(prof)
    try:
        for scen in extras[:400]:
            runner.safe_execute(engine, scen)
        for i in range(n):
            scen = runner.make_scenario(engine, seed, i, "quick")
            runner.safe_execute(engine, scen)
    finally:
        sys.setprofile(None)
    for fp, rel in sorted(files.items(), key=lambda kv: kv[1]):
        d = defs[fp]
        # decorated functions report the decorator's line as first line in some versions: accept +-3 lines
        hit = {ln for ln in d if any((ln + k) in seen[fp] for k in range(-3, 1))}
        missing = [d[ln] for ln in sorted(d) if ln not in hit]
        print(f"{rel}: {len(hit)}/{len(d)} functions entered")
        for name in missing:
            print(f"    - {name}")


if __name__ == "__main__":
    main()
