#!/venv/bin/python
"""tools/linereach.py Cxx [n_scenarios] [batch_seed] [file-substring]

Reach measurement, one level below tools/funcreach.py: runs the first n generated scenarios (and the corpus /
enumerated extras) of a property's engine in this process under coverage.py (present in /venv; nothing is
measured when it is missing) and lists, per function of the files the property is anchored in, the executable
lines that were never run.  A line that never runs cannot be caught breaking: the list is where the generator
has to grow, or where the property does not reach (doctest helpers, Windows branches, other back-ends).

Output: per anchored file "lines run / executable", then "function: missing line numbers".
"""

from __future__ import annotations

import ast
import json
import os
import sys

HERE = os.path.dirname(os.path.dirname(os.path.abspath(__file__)))
sys.path.insert(0, HERE)
os.environ.setdefault("PYTHONHASHSEED", "0")

from simkit import core, runner  # noqa: E402

import vfmain  # noqa: E402


def function_spans(path: str) -> list[tuple[int, int, str, int]]:
    out = []
    with open(path) as fh:
        tree = ast.parse(fh.read())

    def walk(node, prefix):
        for ch in ast.iter_child_nodes(node):
            if isinstance(ch, (ast.FunctionDef, ast.AsyncFunctionDef)):
                first = ch.body[0]
                if isinstance(first, ast.Expr) and isinstance(getattr(first, "value", None), ast.Constant) and isinstance(first.value.value, str) and len(ch.body) > 1:
                    first = ch.body[1]  # (skip the docstring)
                out.append((ch.lineno, ch.end_lineno, prefix + ch.name, first.lineno))
                walk(ch, prefix + ch.name + ".")
            elif isinstance(ch, ast.ClassDef):
                walk(ch, prefix + ch.name + ".")
            else:
                walk(ch, prefix)

    walk(tree, "")
    return out


def main() -> None:
    try:
        import coverage  # noqa: PLC0415
    except ImportError:
        print("coverage.py is not installed in this interpreter: nothing measured")
        return
    prop = sys.argv[1]
    n = int(sys.argv[2]) if len(sys.argv) > 2 else 1000
    seed = int(sys.argv[3]) if len(sys.argv) > 3 else 0
    only = sys.argv[4] if len(sys.argv) > 4 else ""
    anchors = []
    with open(os.path.join(HERE, "properties.jsonl")) as fh:
        for line in fh:
            p = json.loads(line)
            if p["id"] == prop:
                anchors = list(p["anchors"]["files"])
    repo = core.REPO_DIR
    files = {os.path.realpath(os.path.join(repo, a)): a for a in anchors if os.path.exists(os.path.join(repo, a)) and only in a}
    cov = coverage.Coverage(data_file=None, include=list(files), branch=False)
    engine = vfmain.get_engine(prop)
    extras = runner.load_corpus(prop) + engine.extra_scenarios("quick")
    cov.start()
    try:
        for scen in extras[:400]:
            runner.safe_execute(engine, scen)
        for i in range(n):
            scen = runner.make_scenario(engine, seed, i, "quick")
            runner.safe_execute(engine, scen)
    finally:
        cov.stop()
    for fp, rel in sorted(files.items(), key=lambda kv: kv[1]):
        try:
            _f, executable, _excl, missing, _fmt = cov.analysis2(fp)
        except Exception as e:  # noqa: BLE001
            print(f"{rel}: not measured ({type(e).__name__}: the module was imported before the measurement started and never ran)")
            continue
        print(f"{rel}: {len(executable) - len(missing)}/{len(executable)} lines run")
        spans = sorted(function_spans(fp), key=lambda s: (s[0], -s[1]))
        per: dict[str, list[int]] = {}
        for ln in missing:
            inner = None
            for a, b, name, body in spans:
                if a <= ln <= b:
                    inner = None if ln < body else name  # the last (innermost) span containing the line wins
            if inner is None:
                continue  # module level, def lines, decorators, defaults: ran at import time, before the measurement
            per.setdefault(inner, []).append(ln)
        for name, lns in per.items():
            print(f"    {name}: {','.join(map(str, lns))}")


if __name__ == "__main__":
    main()
