#!/bin/sh
# tools/sweep.sh <tier> <first_seed> <last_seed> [Cxx ...]
# Runs the checks for a range of batch seeds (evidence goes to a scratch directory, so the committed
# evidence files are not touched) and prints one line per (property, seed); violations are listed in full.
# Used to look for seeds under which a check raises an alarm on the unchanged tree.
TIER=${1:-quick}; A=${2:-1}; B=${3:-5}; shift 3 2>/dev/null
PROPS=${*:-C04 C05 C06 C07 C08 C10 C12 C13 C14 C15 C20}
cd "$(dirname "$0")/.." || exit 2
EV=$(mktemp -d /tmp/verif_sweep_ev.XXXXXX)
rc_all=0
for s in $(seq "$A" "$B"); do
  for p in $PROPS; do
    out=$(VERIF_SEED=$s VERIF_EVIDENCE_DIR=$EV VERIF_SKIP_DET=${VERIF_SKIP_DET:-1} ./vf check "$p" "$TIER" 2>&1); rc=$?
    echo "seed=$s $p rc=$rc $(echo "$out" | tail -1)"
    if [ $rc -ne 0 ]; then rc_all=1; echo "$out" | grep -A3 "^VIOLATION\|HARNESS" | cut -c1-400; fi
  done
done
rm -rf "$EV"
exit $rc_all
