#!/bin/sh
# Offline setup: nothing is fetched or built; verify the interpreter, the optional loops and our own modules.
set -e
cd "$(dirname "$0")"
/venv/bin/python - <<'PY'
import sys
sys.path.insert(0, "/repo")
import urwid, tornado, twisted, trio, zmq  # noqa: F401,E401
import compileall, os
ok = compileall.compile_dir("simkit", quiet=1, legacy=False) and compileall.compile_dir("props", quiet=1, legacy=False)
print("urwid from", os.path.dirname(urwid.__file__), "python", sys.version.split()[0], "compiled", bool(ok))
sys.exit(0 if ok else 1)
PY
