"""TrioEventLoop on the simulated world.

Real: urwid.event_loop.trio_loop.TrioEventLoop and the whole trio scheduler.
Replaced: the clock (trio.testing.MockClock with a tiny autojump threshold; a threshold of 0
makes trio report timeout=0 to instruments and urwid's idle emulation would never fire, which
is an artefact of the mock clock), the fd wait (TrioEventLoop._wait_readable, an instance
attribute urwid provides for exactly this purpose) and trio's batch-shuffling PRNG (seeded).
External events are applied by a trio *system task* so that no extra nursery (and no extra
ExceptionGroup layer) sits between urwid's main task and trio.run().
"""

from __future__ import annotations

import random
import types

import trio
import trio.testing

from . import world as W
from .core import Quiescent, arm_spin_timer
from .loops import LoopBox

AUTOJUMP = 1e-6
GRACE = 3600.0


class _TrioClockView:
    """world.clock replacement while a trio loop is in charge of time."""

    def __init__(self, start: float) -> None:
        self.start = start
        self.mock: trio.testing.MockClock | None = None
        self._frozen = start

    @property
    def now(self) -> float:
        if self.mock is not None:
            self._frozen = self.start + self.mock.current_time()
        return self._frozen

    @now.setter
    def now(self, v: float) -> None:  # world.advance()/block() never run under trio
        self._frozen = v

    def time(self) -> float:
        return self.now


def _make_clock(world: W.World):
    """MockClock whose autojump - the moment trio has found nothing runnable and no I/O, i.e. the
    loop really waits - is logged as the simulator's `block` event with the virtual wait."""

    mock = trio.testing.MockClock(autojump_threshold=AUTOJUMP)
    real_autojump = mock._autojump  # noqa: SLF001

    def _autojump() -> None:
        jump = trio.lowlevel.current_statistics().seconds_to_next_deadline
        arm_spin_timer()
        if 0 < jump < float("inf"):
            w = world
            w.count_seam()
            seq = w.log.add("block", [float(jump), "trio"])
            w.blocks.append((seq, w.clock.now, float(jump)))
            if w.on_block is not None:
                w.on_block(float(jump))
        real_autojump()

    mock._autojump = _autojump  # noqa: SLF001  (MockClock is final: instance-level wrap)
    return mock


class _TrioState:
    def __init__(self, world: W.World, seed: int) -> None:
        self.world = world
        self.seed = seed
        self.lot = trio.lowlevel.ParkingLot()
        self.running = False
        self.quiescent = False
        self.scope: trio.CancelScope | None = None

    def wake(self) -> None:
        if self.running and len(self.lot):
            self.lot.unpark_all()

    async def wait_readable(self, fd) -> None:
        if not isinstance(fd, int):
            fd = fd.fileno()
        w = self.world
        await trio.lowlevel.checkpoint_if_cancelled()
        while not w.fd_readable(fd):
            await self.lot.park()
        # readiness is reported through a schedule point, like the real wait_readable
        await trio.lowlevel.cancel_shielded_checkpoint()

    async def driver(self) -> None:
        w = self.world
        while True:
            nxt = w.next_ext_time()
            if nxt is None:
                await trio.sleep(GRACE)
                if w.next_ext_time() is None:
                    self.quiescent = True
                    w.log.add("quiescent", "trio")
                    if self.scope is not None:
                        self.scope.cancel()
                    return
                continue
            await trio.sleep_until(nxt - w.clock.start)
            if w.apply_due():
                self.wake()

    def run(self, async_fn, *args, instruments=(), **kw):
        w = self.world
        mock = _make_clock(w)
        w.clock.mock = mock
        # deterministic scheduling: batches are sorted by task creation counter and then shuffled
        # by a PRNG seeded from the scenario (trio's own hook for reproducible schedules);
        # without it the order of tasks woken at the same instant depends on object addresses
        trio._core._run._ALLOW_DETERMINISTIC_SCHEDULING = True  # noqa: SLF001
        trio._core._run._r = random.Random(self.seed)  # noqa: SLF001

        async def main():
            self.running = True
            trio.lowlevel.spawn_system_task(self.driver)
            with trio.CancelScope() as self.scope:
                await async_fn(*args)

        try:
            trio.run(main, clock=mock, instruments=list(instruments), **kw)
        finally:
            self.running = False
            _ = w.clock.now  # freeze the last virtual time
            w.clock.mock = None
            w.clock.start = w.clock.now  # a later trio.run() starts a new mock clock at 0: continue from here
        if self.quiescent:
            raise Quiescent


_PATCHED = False
_STATE: _TrioState | None = None


class _TrioProxy(types.ModuleType):
    def __init__(self) -> None:
        super().__init__("trio")

    def run(self, *a, **kw):
        if _STATE is None:
            return trio.run(*a, **kw)
        return _STATE.run(*a, **kw)

    def __getattr__(self, name):
        return getattr(trio, name)


def make(world: W.World) -> LoopBox:
    global _PATCHED, _STATE  # noqa: PLW0603
    import urwid.event_loop.trio_loop as tl  # noqa: PLC0415

    if not _PATCHED:
        tl.trio = _TrioProxy()
        _PATCHED = True
    seed = world.take_tiebreak(1 << 30) if world.tiebreak else 0
    st = _TrioState(world, seed)
    _STATE = st
    view = _TrioClockView(world.clock.now)
    world.clock = view
    world.log.clock = view
    world.on_feed = st.wake
    loop = tl.TrioEventLoop()
    loop._wait_readable = st.wait_readable  # noqa: SLF001

    def cleanup() -> None:
        global _STATE  # noqa: PLW0603
        _STATE = None
        world.on_feed = None

    box = LoopBox("trio", loop, cleanup)
    # the other documented entry point: `await loop.run_async()` inside a trio program that is already running
    box.extra["run_async"] = lambda: st.run(loop.run_async)
    return box
