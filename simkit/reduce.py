"""Scenario reducer: delta debugging over the scenario's lists, then engine-specific one-step
simplifications, accepting a candidate only while the same (clause, signature) persists."""

from __future__ import annotations

import copy
import time


def _fails(engine, scen, key) -> bool:
    from .runner import safe_execute  # noqa: PLC0415

    try:
        res = safe_execute(engine, scen)
    except Exception:  # noqa: BLE001
        return False
    return any(v.key() == key for v in res.violations)


def _ddmin(engine, scen, field, key, budget):
    items = list(scen.get(field) or [])
    n = 2
    while len(items) >= 1 and budget[0] > 0:
        chunk = max(1, len(items) // n)
        reduced = False
        for start in range(0, len(items), chunk):
            cand_items = items[:start] + items[start + chunk :]
            cand = dict(scen)
            cand[field] = cand_items
            budget[0] -= 1
            if _fails(engine, cand, key):
                items = cand_items
                scen = cand
                n = max(n - 1, 2)
                reduced = True
                break
            if budget[0] <= 0:
                break
        if not reduced:
            if chunk == 1:
                break
            n = min(len(items), n * 2)
    return scen


def reduce(engine, scen: dict, key: tuple[str, str], max_execs: int = 600, max_wall: float = 90.0):
    t0 = time.time()
    scen = copy.deepcopy(scen)
    orig = {f: len(scen.get(f) or []) for f in engine.reducible}
    budget = [max_execs]
    if not _fails(engine, scen, key):
        return scen, None, {"note": "not reproducible in reducer", **orig}
    progress = True
    while progress and budget[0] > 0 and time.time() - t0 < max_wall:
        progress = False
        for field in engine.reducible:
            before = len(scen.get(field) or [])
            scen = _ddmin(engine, scen, field, key, budget)
            if len(scen.get(field) or []) < before:
                progress = True
        for cand in engine.simplify(scen):
            if budget[0] <= 0 or time.time() - t0 > max_wall:
                break
            budget[0] -= 1
            if _fails(engine, cand, key):
                scen = cand
                progress = True
                break
    stats = {f"orig_{f}": n for f, n in orig.items()}
    stats.update({f"reduced_{f}": len(scen.get(f) or []) for f in engine.reducible})
    stats["executions"] = max_execs - budget[0]
    return scen, None, stats
