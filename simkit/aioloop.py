"""SimAsyncioLoop: the real asyncio BaseEventLoop machinery (handles, timer heap, ready queue,
exception handler plumbing) with the clock and the blocking step replaced by the simulated
world.  Used directly by AsyncioEventLoop(loop=...), and underneath Tornado's IOLoop and
Twisted's AsyncioSelectorReactor."""

from __future__ import annotations

import asyncio
from asyncio import base_events, events

from . import world as W


class _SimSel:
    """What BaseEventLoop._run_once calls as self._selector."""

    def __init__(self, loop: SimAsyncioLoop) -> None:
        self.loop = loop

    def select(self, timeout):
        lp = self.loop
        w = lp.world
        fds = list(lp._readers)

        def ready():
            r = [fd for fd in fds if fd in lp._readers and w.fd_readable(fd)]
            return w.order_ready(r)

        return w.block(timeout, ready, [w.fd_name(fd) for fd in fds])

    def close(self) -> None:
        pass


class SimAsyncioLoop(base_events.BaseEventLoop):
    def __init__(self, world: W.World) -> None:
        super().__init__()
        self.world = world
        self._selector = _SimSel(self)
        self._readers: dict[int, events.Handle] = {}
        # asyncio treats a timer as due when when < now + resolution; 0 would never fire a
        # timer that is due exactly now.  2**-20 is an exact binary fraction.
        self._clock_resolution = 2.0**-20

    def time(self) -> float:
        return self.world.clock.now

    def _process_events(self, event_list) -> None:
        for fd in event_list:
            h = self._readers.get(fd)
            if h is not None and not h._cancelled:
                self._ready.append(h)

    def _write_to_self(self) -> None:
        pass

    @staticmethod
    def _fd(fd) -> int:
        return fd if isinstance(fd, int) else fd.fileno()

    def add_reader(self, fd, callback, *args):
        self._check_closed()
        fd = self._fd(fd)
        handle = events.Handle(callback, args, self, None)
        old = self._readers.get(fd)
        if old is not None:
            old.cancel()
        self._readers[fd] = handle
        return handle

    def remove_reader(self, fd) -> bool:
        if self.is_closed():
            return False
        fd = self._fd(fd)
        h = self._readers.pop(fd, None)
        if h is None:
            return False
        h.cancel()
        return True

    def add_writer(self, fd, callback, *args):
        raise NotImplementedError("SimAsyncioLoop: writers are not simulated")

    def remove_writer(self, fd) -> bool:
        return False

    def close(self) -> None:
        if not self.is_closed():
            for h in self._readers.values():
                h.cancel()
            self._readers.clear()
        super().close()

    # no signal handling, subprocesses or sockets in the simulation
    def add_signal_handler(self, sig, callback, *args):
        raise NotImplementedError

    def remove_signal_handler(self, sig):
        return False


def new_loop(world: W.World) -> SimAsyncioLoop:
    lp = SimAsyncioLoop(world)
    lp.set_debug(False)
    return lp


__all__ = ["SimAsyncioLoop", "asyncio", "new_loop"]
