"""RefTerm - a small, independent VT100/xterm model (DESIGN.md section 4.1, appendix B).

Written from the DEC VT100/VT102 user guides and xterm's ctlseqs document; shares no code with
urwid.  Two consumers:

* dialect "X": the user's terminal; interprets everything urwid's raw display writes (C04, C12);
* dialect "V": the reference VT100 for urwid.vterm (C15); additionally implements ED, IL/DL,
  ICH/DCH/ECH, DECSTBM, IND/RI/NEL, CHA/VPA/HVP, scroll-back and the DSR/CPR/DA replies.

Input is text (already decoded characters).  Anything not implemented is parsed to its final
byte, ignored and counted in `unknown`.
"""

from __future__ import annotations

import unicodedata

DEFAULT = ("d",)


def char_width(ch: str) -> int:
    """Column width by Unicode properties (independent of urwid's table)."""
    o = ord(ch)
    if o < 0x20 or 0x7F <= o < 0xA0:
        return 0
    if unicodedata.combining(ch) or unicodedata.category(ch) in ("Mn", "Me", "Cf"):
        return 0
    if unicodedata.east_asian_width(ch) in ("W", "F"):
        return 2
    return 1


class Attr:
    """SGR state.  Immutable value object."""

    __slots__ = ("bg", "blink", "bold", "fg", "italics", "reverse", "strike", "underline")

    def __init__(self, fg=DEFAULT, bg=DEFAULT, bold=False, italics=False, underline=False, blink=False, reverse=False, strike=False):
        self.fg = fg
        self.bg = bg
        self.bold = bold
        self.italics = italics
        self.underline = underline
        self.blink = blink
        self.reverse = reverse
        self.strike = strike

    def key(self):
        return (self.fg, self.bg, self.bold, self.italics, self.underline, self.blink, self.reverse, self.strike)

    def __eq__(self, other):
        return isinstance(other, Attr) and self.key() == other.key()

    def __hash__(self):
        return hash(self.key())

    def replace(self, **kw):
        d = {k: getattr(self, k) for k in self.__slots__}
        d.update(kw)
        return Attr(**d)

    def __repr__(self):
        flags = "".join(c for c, v in zip("BIUKRS", (self.bold, self.italics, self.underline, self.blink, self.reverse, self.strike)) if v)
        return f"<{self.fg}/{self.bg}{' ' + flags if flags else ''}>"


PLAIN = Attr()


class Cell:
    __slots__ = ("attr", "ch", "cs", "wide")

    def __init__(self, ch=" ", attr=PLAIN, cs="B", wide=0):
        self.ch = ch  # text of the cell ("" for the right half of a wide character)
        self.attr = attr
        self.cs = cs  # character set the glyph was written in: "B" ascii, "0" DEC special, "U" IBM PC
        self.wide = wide  # 0 normal, 1 left half of wide char, 2 right half

    def copy(self):
        return Cell(self.ch, self.attr, self.cs, self.wide)

    def key(self):
        return (self.ch, self.attr.key(), self.cs, self.wide)

    def __repr__(self):
        return f"Cell({self.ch!r},{self.attr!r},{self.cs},{self.wide})"


class RefTerm:
    def __init__(self, cols: int, rows: int, dialect: str = "X", bce: bool = True, scrollback: int = 0) -> None:
        self.dialect = dialect
        self.bce = bce
        self.cols = cols
        self.rows = rows
        self.scrollback_limit = scrollback
        self.scrollback: list[list[Cell]] = []
        self.replies: list[str] = []
        self.title = None
        self.hard_reset()

    # ------------------------------------------------------------------------------------
    def hard_reset(self) -> None:
        self.grid = [self._blank_row(PLAIN) for _ in range(self.rows)]
        self.alt_saved = None
        self.on_alt = False
        self.x = 0
        self.y = 0
        self.wrap_pending = False
        self.attr = PLAIN
        self.cursor_visible = True
        self.insert = False
        self.autowrap = True
        self.origin = False
        self.top = 0
        self.bot = self.rows - 1
        self.g = ["B", "B"]
        self.shift = 0
        self.ibmpc = False
        self.saved = None
        self.modes: set[int] = set()
        self.scroll_events = 0
        self.unknown = 0
        self.unknown_list: list[str] = []
        self._state = "ground"
        self._buf = ""
        self.tabs = set(range(8, 1000, 8))
        self.lnm = False

    def _blank(self, attr=None) -> Cell:
        a = attr if attr is not None else self.attr
        if self.bce:
            return Cell(" ", Attr(bg=a.bg) if a.bg != DEFAULT else PLAIN)
        return Cell(" ", PLAIN)

    def _blank_row(self, attr=None) -> list[Cell]:
        a = attr if attr is not None else PLAIN
        return [Cell(" ", Attr(bg=a.bg) if (self.bce and a.bg != DEFAULT) else PLAIN) for _ in range(self.cols)]

    # ------------------------------------------------------------------------------------
    def resize(self, cols: int, rows: int) -> None:
        """xterm-like: content stays anchored top-left, cut or blank-extended; cursor clamped;
        scrolling region reset."""

        def fit(grid):
            g = [r[:cols] + [Cell() for _ in range(cols - len(r))] for r in grid[:rows]]
            while len(g) < rows:
                g.append([Cell() for _ in range(cols)])
            for r in g:
                if r and r[-1].wide == 1:
                    r[-1] = Cell()
            return g

        self.grid = fit(self.grid)
        if self.alt_saved is not None:
            self.alt_saved = (fit(self.alt_saved[0]), *self.alt_saved[1:])
        self.cols, self.rows = cols, rows
        self.x = min(self.x, cols - 1)
        self.y = min(self.y, rows - 1)
        self.wrap_pending = False
        self.top, self.bot = 0, rows - 1

    # ------------------------------------------------------------------------------------
    def feed(self, data: str) -> None:
        for ch in data:
            self._feed_char(ch)

    def _feed_char(self, ch: str) -> None:  # noqa: C901, PLR0912
        st = self._state
        o = ord(ch)
        if st == "ground":
            if ch == "\x1b":
                self._state = "esc"
                self._buf = ""
            elif o < 0x20 or o == 0x7F:
                self._c0(ch)
            else:
                self._print(ch)
            return
        if st == "esc":
            if ch == "[":
                self._state = "csi"
                self._buf = ""
            elif ch == "]":
                self._state = "osc"
                self._buf = ""
            elif ch in "()*+":
                self._state = "charset" + ch
            elif ch == "#":
                self._state = "hash"
            elif ch == "\x1b":
                self._buf = ""
            elif o < 0x20:
                self._c0(ch)
            else:
                self._state = "ground"
                self._esc_final(ch)
            return
        if st.startswith("charset"):
            which = st[-1]
            self._state = "ground"
            if which == "(":
                self.g[0] = ch if ch in "0B" else "B"
            elif which == ")":
                self.g[1] = ch if ch in "0B" else "B"
            return
        if st == "hash":
            self._state = "ground"
            if ch == "8":
                self._decaln()
            else:
                self._unknown("ESC#" + ch)
            return
        if st == "csi":
            if ch == "\x1b":
                self._state = "esc"
                return
            if o < 0x20:
                self._c0(ch)
                return
            if 0x40 <= o <= 0x7E:
                self._state = "ground"
                self._csi(self._buf, ch)
            else:
                self._buf += ch
            return
        if st == "osc":
            if ch == "\x07":
                self._state = "ground"
                self._osc(self._buf)
            elif ch == "\x1b":
                self._state = "osc_esc"
            else:
                self._buf += ch
            return
        if st == "osc_esc":
            self._state = "ground"
            self._osc(self._buf)
            if ch != "\\":
                self._state = "esc"
                self._feed_char(ch) if ch != "\x1b" else None
            return

    def _unknown(self, what: str) -> None:
        self.unknown += 1
        if len(self.unknown_list) < 20:
            self.unknown_list.append(what)

    # ------------------------------------------------------------------------------------
    def _c0(self, ch: str) -> None:
        if ch == "\r":
            self.x = 0
            self.wrap_pending = False
        elif ch in "\n\x0b\x0c":
            self._linefeed()
            if self.lnm:
                self.x = 0
        elif ch == "\b":
            if self.x > 0:
                self.x -= 1
            self.wrap_pending = False
        elif ch == "\t":
            nxt = self.x + 1
            while nxt < self.cols - 1 and nxt not in self.tabs:
                nxt += 1
            self.x = min(nxt, self.cols - 1)
            self.wrap_pending = False
        elif ch == "\x0e":
            self.shift = 1
        elif ch == "\x0f":
            self.shift = 0
        elif ch in "\x07\x00\x7f":
            pass
        else:
            pass

    def _linefeed(self) -> None:
        self.wrap_pending = False
        if self.y == self.bot:
            self._scroll_up(1)
        elif self.y < self.rows - 1:
            self.y += 1

    def _reverse_index(self) -> None:
        self.wrap_pending = False
        if self.y == self.top:
            self._scroll_down(1)
        elif self.y > 0:
            self.y -= 1

    def _scroll_up(self, n: int) -> None:
        self.scroll_events += n
        for _ in range(n):
            line = self.grid.pop(self.top)
            if self.top == 0 and not self.on_alt and self.scrollback_limit:
                self.scrollback.append(line)
                if len(self.scrollback) > self.scrollback_limit:
                    del self.scrollback[0]
            self.grid.insert(self.bot, self._blank_row(self.attr))

    def _scroll_down(self, n: int) -> None:
        self.scroll_events += n
        for _ in range(n):
            self.grid.pop(self.bot)
            self.grid.insert(self.top, self._blank_row(self.attr))

    # ------------------------------------------------------------------------------------
    def _print(self, ch: str) -> None:
        w = char_width(ch)
        cs = self.g[self.shift]
        if self.ibmpc:
            cs = "U"
        if cs == "0" and not ("\x5f" <= ch <= "\x7e"):
            cs = "B"  # DEC special graphics only remaps 0x5f..0x7e
        if w == 0:
            # combining: joins the previous cell
            tx = self.x - 1 if not self.wrap_pending else self.x
            if tx >= 0:
                c = self.grid[self.y][tx]
                if c.wide == 2 and tx > 0:
                    c = self.grid[self.y][tx - 1]
                c.ch += ch
            return
        if self.wrap_pending:
            if self.autowrap:
                self.x = 0
                self._linefeed()
            self.wrap_pending = False
        if w == 2 and self.cols < 2:
            return  # a wide character cannot be shown on a one-column terminal
        if w == 2 and self.x == self.cols - 1:
            if self.autowrap:
                # a wide character does not fit in the last column: wrap first
                self._erase_cell(self.y, self.x)
                self.x = 0
                self._linefeed()
            else:
                return
        row = self.grid[self.y]
        if self.insert:
            self._split_wide_at(self.y, self.x)
            for _ in range(w):
                row.insert(self.x, Cell())
                dropped = row.pop()
                if dropped.wide == 2 and row[-1].wide == 1:
                    row[-1] = self._blank()
                if row[-1].wide == 1:
                    row[-1] = self._blank()
        # overwriting half of a wide character blanks the other half
        self._erase_cell(self.y, self.x)
        if w == 2:
            self._erase_cell(self.y, self.x + 1)
            row[self.x] = Cell(ch, self.attr, cs, 1)
            row[self.x + 1] = Cell("", self.attr, cs, 2)
        else:
            row[self.x] = Cell(ch, self.attr, cs, 0)
        self.x += w
        if self.x >= self.cols:
            self.x = self.cols - 1
            self.wrap_pending = True

    def _erase_cell(self, y: int, x: int) -> None:
        row = self.grid[y]
        if not 0 <= x < self.cols:
            return
        c = row[x]
        if c.wide == 1 and x + 1 < self.cols:
            row[x + 1] = Cell(" ", row[x + 1].attr)
        elif c.wide == 2 and x > 0:
            row[x - 1] = Cell(" ", row[x - 1].attr)
        row[x] = Cell(" ", c.attr)

    # ------------------------------------------------------------------------------------
    def _esc_final(self, ch: str) -> None:
        if ch == "7":
            self._save_cursor()
        elif ch == "8":
            self._restore_cursor()
        elif ch == "D":
            self._linefeed()
        elif ch == "M":
            self._reverse_index()
        elif ch == "E":
            self.x = 0
            self._linefeed()
        elif ch == "c":
            cols, rows = self.cols, self.rows
            self.hard_reset()
            self.cols, self.rows = cols, rows
        elif ch in "=>":
            pass
        elif ch == "H":
            self.tabs.add(self.x)
        elif ch == "\\":
            pass
        else:
            self._unknown("ESC" + ch)

    def _save_cursor(self) -> None:
        self.saved = (self.x, self.y, self.attr, list(self.g), self.shift, self.origin, self.wrap_pending)

    def _restore_cursor(self) -> None:
        if self.saved is None:
            self.x = self.y = 0
            self.attr = PLAIN
            self.wrap_pending = False
            return
        self.x, self.y, self.attr, g, self.shift, self.origin, self.wrap_pending = self.saved
        self.g = list(g)
        self.x = min(self.x, self.cols - 1)
        self.y = min(self.y, self.rows - 1)

    def _decaln(self) -> None:
        for r in self.grid:
            for i in range(self.cols):
                r[i] = Cell("E", PLAIN)
        self.x = self.y = 0
        self.top, self.bot = 0, self.rows - 1

    def _osc(self, body: str) -> None:
        if body[:2] in ("0;", "2;"):
            self.title = body[2:]

    # ------------------------------------------------------------------------------------
    @staticmethod
    def _params(buf: str) -> tuple[str, list[int | None]]:
        priv = ""
        while buf and buf[0] in "?<>=":
            priv += buf[0]
            buf = buf[1:]
        body = "".join(c for c in buf if c in "0123456789;:")
        if body != buf:
            priv += "!"  # intermediates / junk present
        out: list[int | None] = []
        for part in body.split(";") if body else []:
            part = part.split(":")[0]
            out.append(int(part) if part else None)
        return priv, out

    def _csi(self, buf: str, fin: str) -> None:  # noqa: C901, PLR0912, PLR0915
        priv, ps = self._params(buf)

        def p(i: int, default: int = 1, zero_default: bool = True) -> int:
            v = ps[i] if i < len(ps) else None
            if v is None or (v == 0 and zero_default):
                return default
            return v

        if priv == "?" and fin in "hl":
            for v in ps:
                if v is not None:
                    self._dec_mode(v, fin == "h")
            return
        if priv:
            if priv == ">" and fin == "c":
                return
            self._unknown("CSI" + buf + fin)
            return
        if fin == "m":
            self._sgr(ps)
        elif fin in "Hf":
            self._cup(p(0), p(1))
        elif fin == "A":
            self.wrap_pending = False
            lim = self.top if self.y >= self.top else 0
            self.y = max(lim, self.y - p(0))
        elif fin in "Be":
            self.wrap_pending = False
            lim = self.bot if self.y <= self.bot else self.rows - 1
            self.y = min(lim, self.y + p(0))
        elif fin in "Ca":
            self.wrap_pending = False
            self.x = min(self.cols - 1, self.x + p(0))
        elif fin == "D":
            self.wrap_pending = False
            self.x = max(0, self.x - p(0))
        elif fin == "E":
            self.wrap_pending = False
            self.x = 0
            self.y = min(self.bot if self.y <= self.bot else self.rows - 1, self.y + p(0))
        elif fin == "F":
            self.wrap_pending = False
            self.x = 0
            self.y = max(self.top if self.y >= self.top else 0, self.y - p(0))
        elif fin in "G`":
            self.wrap_pending = False
            self.x = min(self.cols - 1, p(0) - 1)
        elif fin == "d":
            self.wrap_pending = False
            base = self.top if self.origin else 0
            lim = self.bot if self.origin else self.rows - 1
            self.y = min(lim, base + p(0) - 1)
        elif fin == "K":
            self._el(p(0, 0, False))
        elif fin == "J":
            self._ed(p(0, 0, False))
        elif fin == "@":
            self._ich(p(0))
        elif fin == "P":
            self._dch(p(0))
        elif fin == "X":
            self._ech(p(0))
        elif fin == "L":
            self._il(p(0))
        elif fin == "M":
            self._dl(p(0))
        elif fin == "r":
            top = p(0) - 1
            bot = (ps[1] if len(ps) > 1 and ps[1] else self.rows) - 1
            bot = min(bot, self.rows - 1)
            if top < bot:
                self.top, self.bot = top, bot
                self._cup(1, 1)
        elif fin == "h":
            for v in ps:
                if v == 4:
                    self.insert = True
                elif v == 20:
                    self.lnm = True
        elif fin == "l":
            for v in ps:
                if v == 4:
                    self.insert = False
                elif v == 20:
                    self.lnm = False
        elif fin == "s":
            self._save_cursor()
        elif fin == "u":
            self._restore_cursor()
        elif fin == "n":
            if p(0, 0, False) == 5:
                self.replies.append("\x1b[0n")
            elif p(0, 0, False) == 6:
                row = self.y + 1 - (self.top if self.origin else 0)
                self.replies.append(f"\x1b[{row};{self.x + 1}R")
        elif fin == "c":
            self.replies.append("\x1b[?6c")
        elif fin == "g":
            if p(0, 0, False) == 0:
                self.tabs.discard(self.x)
            elif p(0, 0, False) == 3:
                self.tabs.clear()
        elif fin == "S":
            self._scroll_up(p(0))
        elif fin == "T":
            self._scroll_down(p(0))
        else:
            self._unknown("CSI" + buf + fin)

    def _cup(self, row: int, col: int) -> None:
        self.wrap_pending = False
        base = self.top if self.origin else 0
        lim = self.bot if self.origin else self.rows - 1
        self.y = max(base, min(lim, base + row - 1))
        self.x = max(0, min(self.cols - 1, col - 1))

    def _dec_mode(self, v: int, on: bool) -> None:
        if v == 25:
            self.cursor_visible = on
        elif v == 7:
            self.autowrap = on
            if not on:
                self.wrap_pending = False
        elif v == 6:
            self.origin = on
            self._cup(1, 1)
        elif v in (1049, 47, 1047):
            if on and not self.on_alt:
                if v == 1049:
                    self._save_cursor()
                self.alt_saved = (self.grid, self.saved)
                self.grid = [self._blank_row(PLAIN) for _ in range(self.rows)]
                self.on_alt = True
            elif not on and self.on_alt:
                self.grid = self.alt_saved[0]
                self.on_alt = False
                if v == 1049:
                    self.saved = self.alt_saved[1] if self.saved is None else self.saved
                    self._restore_cursor()
                self.alt_saved = None
        elif on:
            self.modes.add(v)
        else:
            self.modes.discard(v)

    # ------------------------------------------------------------------------------------
    def _sgr(self, ps) -> None:  # noqa: C901, PLR0912
        if not ps:
            ps = [0]
        a = self.attr
        i = 0
        while i < len(ps):
            v = ps[i] or 0
            if v == 0:
                a = PLAIN
            elif v == 1:
                a = a.replace(bold=True)
            elif v == 3:
                a = a.replace(italics=True)
            elif v == 4:
                a = a.replace(underline=True)
            elif v == 5:
                a = a.replace(blink=True)
            elif v == 7:
                a = a.replace(reverse=True)
            elif v == 9:
                a = a.replace(strike=True)
            elif v == 10:
                self.ibmpc = False
            elif v == 11:
                self.ibmpc = True
            elif v in (21, 22):
                a = a.replace(bold=False)
            elif v == 23:
                a = a.replace(italics=False)
            elif v == 24:
                a = a.replace(underline=False)
            elif v == 25:
                a = a.replace(blink=False)
            elif v == 27:
                a = a.replace(reverse=False)
            elif v == 29:
                a = a.replace(strike=False)
            elif 30 <= v <= 37:
                a = a.replace(fg=("i", v - 30))
            elif 40 <= v <= 47:
                a = a.replace(bg=("i", v - 40))
            elif 90 <= v <= 97:
                a = a.replace(fg=("i", v - 90 + 8))
            elif 100 <= v <= 107:
                a = a.replace(bg=("i", v - 100 + 8))
            elif v == 39:
                a = a.replace(fg=DEFAULT)
            elif v == 49:
                a = a.replace(bg=DEFAULT)
            elif v in (38, 48):
                kind = ps[i + 1] if i + 1 < len(ps) else None
                col = None
                if kind == 5 and i + 2 < len(ps):
                    col = ("i", ps[i + 2] or 0)
                    i += 2
                elif kind == 2 and i + 4 < len(ps):
                    col = ("rgb", ps[i + 2] or 0, ps[i + 3] or 0, ps[i + 4] or 0)
                    i += 4
                else:
                    i = len(ps)
                if col is not None:
                    a = a.replace(fg=col) if v == 38 else a.replace(bg=col)
            i += 1
        self.attr = a

    # ------------------------------------------------------------------------------------
    def _el(self, mode: int) -> None:
        row = self.grid[self.y]
        if mode == 0:
            rng = range(self.x, self.cols)
        elif mode == 1:
            rng = range(0, self.x + 1)
        elif mode == 2:
            rng = range(0, self.cols)
        else:
            return
        self.wrap_pending = False
        for i in rng:
            self._erase_cell(self.y, i)
            row[i] = self._blank()

    def _ed(self, mode: int) -> None:
        if mode == 0:
            self._el(0)
            for y in range(self.y + 1, self.rows):
                self.grid[y] = self._blank_row(self.attr)
        elif mode == 1:
            self._el(1)
            for y in range(0, self.y):
                self.grid[y] = self._blank_row(self.attr)
        elif mode in (2, 3):
            for y in range(self.rows):
                self.grid[y] = self._blank_row(self.attr)
            self.wrap_pending = False

    def _ich(self, n: int) -> None:
        row = self.grid[self.y]
        self.wrap_pending = False
        n = min(n, self.cols - self.x)
        self._split_wide_at(self.y, self.x)
        for _ in range(n):
            row.insert(self.x, self._blank())
            row.pop()
        if row[-1].wide == 1:
            row[-1] = self._blank()

    def _dch(self, n: int) -> None:
        row = self.grid[self.y]
        self.wrap_pending = False
        n = min(n, self.cols - self.x)
        self._split_wide_at(self.y, self.x)
        self._split_wide_at(self.y, self.x + n)
        for _ in range(n):
            row.pop(self.x)
            row.append(self._blank())

    def _ech(self, n: int) -> None:
        self.wrap_pending = False
        row = self.grid[self.y]
        for i in range(self.x, min(self.cols, self.x + n)):
            self._erase_cell(self.y, i)
            row[i] = self._blank()

    def _split_wide_at(self, y: int, x: int) -> None:
        """If column x is the right half of a wide character, blank both halves."""
        if 0 < x < self.cols and self.grid[y][x].wide == 2:
            self._erase_cell(y, x)

    def _il(self, n: int) -> None:
        if not self.top <= self.y <= self.bot:
            return
        self.wrap_pending = False
        n = min(n, self.bot - self.y + 1)
        for _ in range(n):
            self.grid.pop(self.bot)
            self.grid.insert(self.y, self._blank_row(self.attr))
        self.x = 0

    def _dl(self, n: int) -> None:
        if not self.top <= self.y <= self.bot:
            return
        self.wrap_pending = False
        n = min(n, self.bot - self.y + 1)
        for _ in range(n):
            self.grid.pop(self.y)
            self.grid.insert(self.bot, self._blank_row(self.attr))
        self.x = 0

    # ------------------------------------------------------------------------------------
    def row_text(self, y: int) -> str:
        return "".join(c.ch for c in self.grid[y])

    def dump(self) -> list[str]:
        return [self.row_text(y) for y in range(self.rows)]
