"""simkit: deterministic simulation kit for urwid (see /verif/DESIGN.md section 3)."""
