"""vf mutants [Cxx ...] [--tier quick|thorough]

Sensitivity: applies every patch in /verif/mutants/*.diff (hand-written, one property each) and
/verif/seeded/*/patch.diff (changes written by independent sub-agents from the property text
only) to a scratch worktree of /repo's HEAD under /tmp, runs the property's check against it
(VERIF_REPO), and records whether and how it is caught.  The scratch worktree is removed at the
end.  Results: /verif/mutants/RESULTS.json.
"""

from __future__ import annotations

import glob
import json
import os
import re
import subprocess
import time

from . import core

WT = "/tmp/verif_mutants_wt"


def sh(*a, **kw):
    return subprocess.run(a, capture_output=True, text=True, check=False, **kw)


def collect(props):
    out = []
    for f in sorted(glob.glob(os.path.join(core.VERIF_DIR, "mutants", "*.diff"))):
        name = os.path.basename(f)[:-5]
        out.append((name, name.split("-")[0], f))
    for d in sorted(glob.glob(os.path.join(core.VERIF_DIR, "seeded", "*"))):
        meta = os.path.join(d, "meta.json")
        patch = os.path.join(d, "patch.diff")
        if os.path.exists(meta) and os.path.exists(patch):
            with open(meta) as fh:
                m = json.load(fh)
            if m.get("neutralised_by"):
                # a later repair of /repo made this change harmless (its own demonstration passes with it): it is kept
                # for the record and no longer counted
                continue
            out.append(("seeded/" + os.path.basename(d), m["property"], patch))
            for other in m.get("also_checked_by", []):
                # a change written against one property that is (also) visible to another property's check
                out.append(("seeded/" + os.path.basename(d), other, patch))
    return [x for x in out if not props or x[1] in props]


def main(argv) -> int:
    tier = "quick"
    if "--tier" in argv:
        tier = argv[argv.index("--tier") + 1]
        del argv[argv.index("--tier") : argv.index("--tier") + 2]
    merge = "--merge" in argv
    if merge:
        argv.remove("--merge")
    only = None
    if "--only" in argv:
        # --only <name-substring>[,<name-substring>...]
        only = argv[argv.index("--only") + 1].split(",")
        del argv[argv.index("--only") : argv.index("--only") + 2]
    items = collect(set(argv))
    if only:
        items = [x for x in items if any(o in x[0] for o in only)]
    sh("git", "-C", core.REPO_DIR, "worktree", "remove", "--force", WT)
    r = sh("git", "-C", core.REPO_DIR, "worktree", "add", "--detach", WT, "HEAD")
    if r.returncode != 0:
        print(r.stderr)
        return 2
    results = []
    try:
        for name, prop, patch in items:
            sh("git", "-C", WT, "checkout", "--", ".")
            a = sh("git", "-C", WT, "apply", "--whitespace=nowarn", patch)
            if a.returncode != 0:
                results.append({"mutant": name, "property": prop, "status": "patch-does-not-apply", "detail": a.stderr[:300]})
                print(f"{name:55s} {prop}  PATCH DOES NOT APPLY")
                continue
            env = dict(os.environ, VERIF_REPO=WT, VERIF_SKIP_DET="1", VERIF_EVIDENCE_DIR="/tmp/verif_mutants_evidence")
            t0 = time.time()
            c = sh(os.path.join(core.VERIF_DIR, "vf"), "check", prop, tier, env=env, cwd=core.VERIF_DIR)
            dt = time.time() - t0
            sigs = re.findall(r"clause=(\S+) signature=(.*?) occurrences=(\d+)", c.stdout)
            status = {0: "MISSED", 1: "caught", 2: "harness-error"}.get(c.returncode, f"exit-{c.returncode}")
            results.append({"mutant": name, "property": prop, "status": status, "wall_s": round(dt, 1), "signatures": [f"{a} {b} x{n}" for a, b, n in sigs[:4]], "tail": c.stdout[-300:] if status != "caught" else ""})
            print(f"{name:55s} {prop}  {status:8s} {dt:5.1f}s  {sigs[0][0] + ' ' + sigs[0][1] if sigs else ''}"[:200])
            for f in glob.glob(os.path.join(core.VERIF_DIR, "replays", f"{prop}-*")):
                os.remove(f)
    finally:
        sh("git", "-C", core.REPO_DIR, "worktree", "remove", "--force", WT)
        sh("rm", "-rf", "/tmp/verif_mutants_evidence")
    out_path = os.path.join(core.VERIF_DIR, "mutants", "RESULTS.json")
    if merge and os.path.exists(out_path):
        # a partial re-run: keep the other rows of the last full sweep
        with open(out_path) as fh:
            old = json.load(fh)
        done = {(r["mutant"], r["property"]) for r in results}
        known = {(x[0], x[1]) for x in collect(set())}
        results = [r for r in old.get("results", []) if (r["mutant"], r["property"]) not in done and (r["mutant"], r["property"]) in known] + results
        results.sort(key=lambda r: (r["mutant"].startswith("seeded/"), r["mutant"], r["property"]))
    with open(out_path, "w") as fh:
        json.dump({"tier": tier, "repo_head": sh("git", "-C", core.REPO_DIR, "rev-parse", "HEAD").stdout.strip(), "results": results}, fh, indent=1)
    caught = sum(r["status"] == "caught" for r in results)
    print(f"mutants: {caught}/{len(results)} caught at tier {tier}")
    return 0
