"""The simulated environment: virtual clock, external-event heap, fake kernel objects
(tty, pipes, socket pairs, pty master), selector / poller stand-ins and the seams that put
them under urwid (DESIGN.md sections 3.2-3.4).

Every fake descriptor number is >= FAKE_FD_BASE; the global wrappers installed on os / fcntl /
termios / tty dispatch on that and fall through to the real functions for every real fd, so the
harness itself (multiprocessing, subprocess, files) is unaffected.
"""

from __future__ import annotations

import errno
import fcntl as _real_fcntl
import heapq
import os as _real_os
import selectors as _real_selectors
import struct
import termios as _real_termios
import time as _real_time
import tty as _real_tty
import types

from .core import BlockedForever, EventLog, HarnessError, Livelock, Quiescent
from .core import arm_spin_timer as _arm_spin_timer

FAKE_FD_BASE = 1_000_000

_WORLD: World | None = None


def current() -> World:
    if _WORLD is None:
        raise HarnessError("no simulated world is active")
    return _WORLD


# ---------------------------------------------------------------------------------------------
# clock


class SimClock:
    def __init__(self, start: float = 1_000_000.0) -> None:
        self.start = start
        self.now = start

    def time(self) -> float:
        return self.now


# ---------------------------------------------------------------------------------------------
# kernel objects


class FakeFile:
    """Base for anything that owns a fake descriptor."""

    kind = "file"

    def __init__(self, world: World, name: str) -> None:
        self.world = world
        self.name = name
        self.fd = world.alloc_fd(self)
        self.closed = False
        self.nonblocking = False

    def fileno(self) -> int:
        return self.fd

    def readable(self) -> bool:
        return False

    def read(self, n: int) -> bytes:
        raise OSError(errno.EBADF, "not readable")

    def write(self, data: bytes) -> int:
        raise OSError(errno.EBADF, "not writable")

    def close(self) -> None:
        self.closed = True
        self.world.fds.pop(self.fd, None)


class ByteQueue(FakeFile):
    """Read end of a pipe-like object: level-triggered readability, honours the size argument."""

    kind = "pipe"

    def __init__(self, world: World, name: str) -> None:
        super().__init__(world, name)
        self.buf = bytearray()
        self.eof = False
        self.hangup_errno: int | None = None
        self.read_caps: list[int] = []  # short-read fault plan: per read call, max bytes
        self.reads = 0
        self.spurious = 0  # number of pending spurious wake-ups (readable but EWOULDBLOCK)

    def feed(self, data: bytes) -> None:
        self.buf.extend(data)
        if self.world.on_feed is not None:
            self.world.on_feed()

    def readable(self) -> bool:
        return bool(self.buf) or self.eof or self.hangup_errno is not None or self.spurious > 0

    def read(self, n: int) -> bytes:
        self.reads += 1
        if not self.buf:
            if self.spurious > 0:
                self.spurious -= 1
                self.world.fault("ewouldblock")
                raise BlockingIOError(errno.EWOULDBLOCK, "would block")
            if self.hangup_errno is not None:
                raise OSError(self.hangup_errno, _real_os.strerror(self.hangup_errno))
            if self.eof:
                return b""
            if self.nonblocking:
                raise BlockingIOError(errno.EAGAIN, "would block")
            # a blocking read on an empty descriptor: the whole (single-threaded) program sleeps until somebody writes
            # to THIS descriptor - its own timers do not fire meanwhile
            self.world.fault("blocking_read_on_empty_descriptor")
            try:
                self.world.block(None, lambda: [self.fd] if (self.buf or self.eof or self.hangup_errno is not None) else [], [self.name])
            except Quiescent as e:
                raise BlockedForever(f"blocking read on {self.name}: nothing will ever arrive") from e
            return self.read(n)
        cap = n
        if self.read_caps:
            c = self.read_caps.pop(0)
            if c and c < min(n, len(self.buf)):
                cap = c
                self.world.fault("short_read")
        data = bytes(self.buf[:cap])
        del self.buf[:cap]
        self.world.log.add("read", [self.name, len(data)])
        return data


class PipeWriter(FakeFile):
    kind = "pipe-w"

    def __init__(self, world: World, name: str, reader: ByteQueue) -> None:
        super().__init__(world, name)
        self.reader = reader

    def write(self, data: bytes) -> int:
        self.reader.feed(bytes(data))
        return len(data)


CC_LEN = 32


def default_termios(variant: int = 0) -> list:
    """A realistic cooked-mode attribute list [iflag, oflag, cflag, lflag, ispeed, ospeed, cc]."""
    t = _real_termios
    iflag = t.ICRNL | t.IXON | getattr(t, "IUTF8", 0)
    oflag = t.OPOST | t.ONLCR
    cflag = t.CS8 | t.CREAD | t.HUPCL
    lflag = t.ISIG | t.ICANON | t.ECHO | t.ECHOE | t.ECHOK | t.IEXTEN
    cc = [b"\x00"] * CC_LEN
    cc[t.VINTR] = b"\x03"
    cc[t.VQUIT] = b"\x1c"
    cc[t.VERASE] = b"\x7f"
    cc[t.VKILL] = b"\x15"
    cc[t.VEOF] = b"\x04"
    cc[t.VSTART] = b"\x11"
    cc[t.VSTOP] = b"\x13"
    cc[t.VSUSP] = b"\x1a"
    cc[t.VMIN] = 1
    cc[t.VTIME] = 0
    if variant == 1:  # cooked without echo
        lflag &= ~t.ECHO
    elif variant == 2:  # already cbreak
        lflag &= ~(t.ECHO | t.ICANON)
    elif variant == 3:  # custom signal characters
        cc[t.VINTR] = b"\x07"
        cc[t.VSUSP] = b"\x19"
    return [iflag, oflag, cflag, lflag, t.B38400, t.B38400, cc]


class SimTTY(ByteQueue):
    """The controlling terminal as seen from the program: input queue + termios + window size.
    The line discipline is not modelled: input bytes reach os.read as sent."""

    kind = "tty"

    def __init__(self, world: World, name: str = "tty", cols: int = 80, rows: int = 24, variant: int = 0) -> None:
        super().__init__(world, name)
        self.attrs = default_termios(variant)
        self.initial_attrs = _copy_attrs(self.attrs)
        self.cols = cols
        self.rows = rows
        self.tcset_calls = 0

    def isatty(self) -> bool:
        return True


def _copy_attrs(a: list) -> list:
    """Copy of an attribute list; like the real termios module, cc[VMIN] and cc[VTIME] are reported as
    integers in non-canonical mode and as bytes in canonical mode."""
    cc = list(a[6])
    t = _real_termios
    canon = bool(a[3] & t.ICANON)
    for i in (t.VMIN, t.VTIME):
        v = cc[i]
        if canon and isinstance(v, int):
            cc[i] = bytes([v])
        elif not canon and isinstance(v, bytes):
            cc[i] = v[0] if v else 0
    return [*a[:6], cc]


class SimTTYOut:
    """Output side handed to Screen(output=...): write()/flush() feed a sink (RefTerm)."""

    def __init__(self, world: World, tty: SimTTY, sink=None) -> None:
        self.world = world
        self.tty = tty
        self.sink = sink
        self.write_calls = 0
        self.on_write = None  # hook(call_index, data) -> None, runs before the bytes reach the sink
        self.captured: list[str] = []
        self.capture = False
        # buffering model of the stream: 0 = unbuffered (every write reaches the terminal at once);
        # n > 0 = like a block-buffered text file (sys.stdout on a pipe, os.fdopen(fd, "w")): bytes reach the
        # terminal only on flush() or when more than n characters are pending
        self.bufsize = 0
        self.pending: list[str] = []
        self.pending_len = 0
        self.flushes = 0

    def fileno(self) -> int:
        return self.tty.fd

    def write(self, data: str) -> int:
        self.write_calls += 1
        if self.on_write is not None:
            self.on_write(self.write_calls, data)
        if self.capture:
            self.captured.append(data)
        if self.bufsize:
            self.pending.append(data)
            self.pending_len += len(data)
            if self.pending_len > self.bufsize:
                self._deliver()
        elif self.sink is not None:
            self.sink.feed(data)
        return len(data)

    def _deliver(self) -> None:
        data, self.pending, self.pending_len = "".join(self.pending), [], 0
        if data and self.sink is not None:
            self.sink.feed(data)

    def flush(self) -> None:
        self.flushes += 1
        if self.bufsize:
            self._deliver()

    def isatty(self) -> bool:
        return True


class SimTTYIn:
    """Input side handed to Screen(input=...)."""

    def __init__(self, tty: SimTTY) -> None:
        self.tty = tty

    def fileno(self) -> int:
        return self.tty.fd

    def isatty(self) -> bool:
        return True


class SimSock(ByteQueue):
    kind = "sock"

    def __init__(self, world: World, name: str) -> None:
        super().__init__(world, name)
        self.peer: SimSock | None = None
        self.nonblocking = False

    def send(self, data: bytes) -> int:
        if self.peer is None or self.peer.closed:
            raise BrokenPipeError(errno.EPIPE, "peer closed")
        self.peer.feed(bytes(data))
        return len(data)

    def recv(self, n: int) -> bytes:
        return self.read(n)

    def setblocking(self, flag: bool) -> None:
        self.nonblocking = not flag


class FakeSocketModule:
    """Stand-in for the `socket` module attribute of _raw_display_base (only socketpair is used)."""

    def __init__(self, world_getter) -> None:
        self._world = world_getter

    def socketpair(self, *a, **kw):
        w = self._world()
        n = w.counter("sockpair")
        a_ = SimSock(w, f"resize{n}.rd")
        b_ = SimSock(w, f"resize{n}.wr")
        a_.peer, b_.peer = b_, a_
        return a_, b_

    def __getattr__(self, name):
        import socket  # noqa: PLC0415

        return getattr(socket, name)


# ---------------------------------------------------------------------------------------------
# selector stand-in


class SimSelectorKey(tuple):
    __slots__ = ()

    def __new__(cls, fileobj, fd, events, data):
        return tuple.__new__(cls, (fileobj, fd, events, data))

    fileobj = property(lambda s: s[0])
    fd = property(lambda s: s[1])
    events = property(lambda s: s[2])
    data = property(lambda s: s[3])


class SimSelector:
    def __init__(self) -> None:
        self.world = current()
        self.keys: dict[int, SimSelectorKey] = {}

    def __enter__(self):
        return self

    def __exit__(self, *a) -> None:
        self.close()

    def close(self) -> None:
        self.keys.clear()

    @staticmethod
    def _fd(fileobj) -> int:
        return fileobj if isinstance(fileobj, int) else fileobj.fileno()

    def register(self, fileobj, events, data=None):
        fd = self._fd(fileobj)
        if fd in self.keys:
            raise KeyError(f"{fileobj!r} is already registered")
        if fd >= FAKE_FD_BASE and fd not in self.world.fds:
            raise OSError(errno.EBADF, "bad fake descriptor")
        k = SimSelectorKey(fileobj, fd, events, data)
        self.keys[fd] = k
        return k

    def unregister(self, fileobj):
        return self.keys.pop(self._fd(fileobj))

    def modify(self, fileobj, events, data=None):
        self.unregister(fileobj)
        return self.register(fileobj, events, data)

    def get_map(self):
        return dict(self.keys)

    def get_key(self, fileobj):
        return self.keys[self._fd(fileobj)]

    def select(self, timeout=None):
        w = self.world
        fds = list(self.keys)

        def ready():
            r = [fd for fd in fds if w.fd_readable(fd)]
            return w.order_ready(r)

        got = w.block(timeout, ready, [w.fd_name(fd) for fd in fds])
        return [(self.keys[fd], _real_selectors.EVENT_READ) for fd in got if fd in self.keys]


class FakeSelectorsModule:
    EVENT_READ = _real_selectors.EVENT_READ
    EVENT_WRITE = _real_selectors.EVENT_WRITE
    DefaultSelector = SimSelector
    SelectSelector = SimSelector
    PollSelector = SimSelector
    EpollSelector = SimSelector
    SelectorKey = SimSelectorKey
    BaseSelector = _real_selectors.BaseSelector


class FakeTimeModule:
    def __init__(self, world_getter) -> None:
        self._world = world_getter

    def time(self) -> float:
        return self._world().clock.now

    def monotonic(self) -> float:
        return self._world().clock.now

    def sleep(self, secs: float) -> None:
        w = self._world()
        w.log.add("sleep", float(secs))
        w.advance(secs)

    def __getattr__(self, name):
        return getattr(_real_time, name)


# ---------------------------------------------------------------------------------------------
# the world


class World:
    """One simulated run: clock, fake descriptors, external events, tie-break tape, counters."""

    def __init__(self, tiebreak=(), seam_cap: int = 20000, keep_log: bool | None = None) -> None:
        self.clock = SimClock()
        if keep_log is None:
            keep_log = bool(_real_os.environ.get("VERIF_KEEP_LOG"))
        self.log = EventLog(self.clock, keep=keep_log)
        self.fds: dict[int, FakeFile] = {}
        self.low_fds: set[int] = set()
        self._next_fd = FAKE_FD_BASE
        self.ext: list[tuple[float, int, str, object]] = []
        self._ext_seq = 0
        self.tiebreak = list(tiebreak)
        self._tb = 0
        self.seam_calls = 0
        self._idle_polls = 0
        self.seam_cap = seam_cap
        self.faults: dict[str, int] = {}
        self.probes: dict[str, int] = {}
        self._counters: dict[str, int] = {}
        self.blocks: list[tuple[int, float, float | None]] = []  # (log seq, time, timeout)
        self.on_block = None  # hook(timeout) called at every block before waiting
        self.quiescent_ok = False
        self.on_feed = None  # hook run whenever a fake descriptor gains data (trio fd waiters)
        self.on_self_signal = None  # hook(sig) for os.kill(os.getpid(), sig)
        self.t0 = self.clock.now

    # -- bookkeeping ----------------------------------------------------------------------
    def counter(self, name: str) -> int:
        self._counters[name] = self._counters.get(name, 0) + 1
        return self._counters[name]

    def fault(self, name: str, n: int = 1) -> None:
        self.faults[name] = self.faults.get(name, 0) + n
        self.log.add("fault", name)

    def probe(self, name: str, n: int = 1) -> None:
        self.probes[name] = self.probes.get(name, 0) + n

    def alloc_fd(self, obj: FakeFile) -> int:
        fd = self._next_fd
        self._next_fd += 1
        self.fds[fd] = obj
        return fd

    def remap_fd(self, obj: FakeFile, number: int) -> None:
        """Give a fake file a small descriptor number (0 = the program's standard input): code that tests a descriptor
        for truthiness instead of `is not None` only goes wrong for that number."""
        self.fds.pop(obj.fd, None)
        obj.fd = number
        self.fds[number] = obj
        self.low_fds.add(number)

    def fd_name(self, fd: int) -> str:
        o = self.fds.get(fd)
        return o.name if o is not None else f"real{'' if fd < FAKE_FD_BASE else '-stale'}"

    def fd_readable(self, fd: int) -> bool:
        o = self.fds.get(fd)
        return bool(o is not None and o.readable())

    def rel(self, t: float | None = None) -> float:
        return (self.clock.now if t is None else t) - self.t0

    def take_tiebreak(self, n_alternatives: int) -> int:
        """Next entry of the tie-break tape, modulo the number of enabled alternatives."""
        if n_alternatives <= 1:
            return 0
        v = self.tiebreak[self._tb] if self._tb < len(self.tiebreak) else 0
        self._tb += 1
        return v % n_alternatives

    def order_ready(self, ready: list[int]) -> list[int]:
        if len(ready) > 1:
            k = self.take_tiebreak(len(ready))
            if k:
                self.fault("ready_order_rotated")
                ready = ready[k:] + ready[:k]
            self.probe("several_fds_ready")
        return ready

    # -- external events ------------------------------------------------------------------
    def schedule(self, t_rel: float, label: str, action) -> None:
        self._ext_seq += 1
        heapq.heappush(self.ext, (self.t0 + t_rel, self._ext_seq, label, action))

    def next_ext_time(self) -> float | None:
        return self.ext[0][0] if self.ext else None

    def apply_due(self) -> int:
        n = 0
        while self.ext and self.ext[0][0] <= self.clock.now:
            _t, _s, label, action = heapq.heappop(self.ext)
            self.log.add("ext", label)
            action()
            n += 1
        return n

    def advance(self, secs: float) -> None:
        """Let virtual time pass without anybody watching (time.sleep)."""
        end = self.clock.now + max(0.0, secs)
        while self.ext and self.ext[0][0] <= end:
            self.clock.now = max(self.clock.now, self.ext[0][0])
            self.apply_due()
        self.clock.now = end

    def count_seam(self) -> None:
        self.seam_calls += 1
        if self.seam_calls > self.seam_cap:
            raise Livelock(f"more than {self.seam_cap} blocking-seam calls in one run")

    def block(self, timeout: float | None, ready_fn, watched=()):
        """Wait until ready_fn() is truthy or the timeout expires, jumping the clock.
        Raises Quiescent when neither can ever happen."""
        self.count_seam()
        _arm_spin_timer()
        if timeout is not None and timeout < 0:
            timeout = 0.0
        seq = self.log.add("block", [timeout if timeout is not None else "inf", list(watched)])
        self.blocks.append((seq, self.clock.now, timeout))
        if self.on_block is not None:
            self.on_block(timeout)
        deadline = None if timeout is None else self.clock.now + timeout
        self.apply_due()
        if timeout == 0 and not ready_fn():
            # A program that polls with a zero timeout in a loop (busy waiting) burns real time; virtual time would stand
            # still and the events it is waiting for would never arrive.  After a long run of fruitless zero-timeout polls
            # the clock is moved to the next external event, as the wall clock would have been.
            self._idle_polls += 1
            if self._idle_polls > 300 and self.ext:
                self._idle_polls = 0
                self.probe("busy_wait_skipped_to_next_event")
                self.log.add("busy-wait", "clock moved to the next external event")
                self.clock.now = max(self.clock.now, self.ext[0][0])
                self.apply_due()
        else:
            self._idle_polls = 0
        while True:
            r = ready_fn()
            if r:
                self.log.add("wake", [self.fd_name(fd) if isinstance(fd, int) else str(fd) for fd in r])
                return r
            nxt = self.next_ext_time()
            if deadline is None and nxt is None:
                self.log.add("quiescent", "")
                raise Quiescent
            if deadline is not None and (nxt is None or deadline < nxt):
                self.clock.now = max(self.clock.now, deadline)
                self.log.add("wake", "timeout")
                return r
            if deadline is not None and deadline == nxt:
                # a timer expiry and an external arrival at the same instant: the environment decides
                self.probe("timeout_and_arrival_same_instant")
                if self.take_tiebreak(2) == 1:
                    self.fault("tie_timeout_first")
                    self.clock.now = max(self.clock.now, deadline)
                    self.log.add("wake", "timeout")
                    return r
            self.clock.now = max(self.clock.now, nxt)
            self.apply_due()


# ---------------------------------------------------------------------------------------------
# global fd-dispatching wrappers

_INSTALLED = False


def _is_fake(fd) -> bool:
    # (a run may also map a LOW descriptor number - 0, standard input - onto a fake file: World.remap_fd)
    return isinstance(fd, int) and (fd >= FAKE_FD_BASE or (_WORLD is not None and fd in _WORLD.low_fds))


def _obj(fd: int) -> FakeFile:
    w = current()
    o = w.fds.get(fd)
    if o is None:
        raise OSError(errno.EBADF, "Bad (fake) file descriptor")
    return o


def install_global_wrappers() -> None:
    """Idempotent.  Wrap os.read/write/close/isatty/fdopen, fcntl.fcntl/ioctl,
    termios.tcgetattr/tcsetattr and tty.setcbreak with fd-dispatching versions."""
    global _INSTALLED  # noqa: PLW0603
    if _INSTALLED:
        return
    _INSTALLED = True
    r_read, r_write, r_close, r_isatty, r_fdopen = (
        _real_os.read,
        _real_os.write,
        _real_os.close,
        _real_os.isatty,
        _real_os.fdopen,
    )
    r_fcntl, r_ioctl = _real_fcntl.fcntl, _real_fcntl.ioctl
    r_tcget, r_tcset = _real_termios.tcgetattr, _real_termios.tcsetattr
    r_setcbreak = _real_tty.setcbreak

    def os_read(fd, n):
        if _is_fake(fd):
            return _obj(fd).read(n)
        return r_read(fd, n)

    def os_write(fd, data):
        if _is_fake(fd):
            o = _obj(fd)
            current().log.add("write", [o.name, len(data)])
            return o.write(data)
        return r_write(fd, data)

    def os_close(fd):
        if _is_fake(fd):
            o = _obj(fd)
            current().log.add("close", o.name)
            return o.close()
        return r_close(fd)

    def os_isatty(fd):
        if _is_fake(fd):
            o = current().fds.get(fd)
            return bool(o is not None and getattr(o, "kind", "") in {"tty", "pty"})
        return r_isatty(fd)

    def os_fdopen(fd, *a, **kw):
        if _is_fake(fd):
            return FakeFileObject(_obj(fd))
        return r_fdopen(fd, *a, **kw)

    def fcntl_fcntl(fd, cmd, arg=0):
        if not isinstance(fd, int) and hasattr(fd, "fileno"):
            fd = fd.fileno()
        if _is_fake(fd):
            o = _obj(fd)
            if cmd == _real_fcntl.F_SETFL:
                o.nonblocking = bool(arg & _real_os.O_NONBLOCK)
                return 0
            if cmd == _real_fcntl.F_GETFL:
                return _real_os.O_NONBLOCK if o.nonblocking else 0
            return 0
        return r_fcntl(fd, cmd, arg)

    def fcntl_ioctl(fd, request, arg=0, mutate_flag=True):
        if not isinstance(fd, int) and hasattr(fd, "fileno"):
            fd = fd.fileno()
        if _is_fake(fd):
            o = _obj(fd)
            if request == _real_termios.TIOCGWINSZ:
                current().log.add("ioctl", ["TIOCGWINSZ", o.name, o.cols, o.rows])
                hook = getattr(o, "on_winsz_query", None)
                buf = struct.pack("HHHH", o.rows, o.cols, 0, 0)
                if hook is not None:
                    hook()
                return buf[: len(arg)] if isinstance(arg, (bytes, bytearray)) else buf
            if request == _real_termios.TIOCSWINSZ:
                rows, cols = struct.unpack("HHHH", arg)[:2]
                o.set_winsize(cols, rows)
                return 0
            raise OSError(errno.ENOTTY, "unsupported ioctl on fake fd")
        return r_ioctl(fd, request, arg, mutate_flag)

    def tcgetattr(fd):
        if not isinstance(fd, int) and hasattr(fd, "fileno"):
            fd = fd.fileno()
        if _is_fake(fd):
            o = _obj(fd)
            if not isinstance(o, SimTTY):
                raise _real_termios.error(errno.ENOTTY, "Inappropriate ioctl for device")
            return _copy_attrs(o.attrs)
        return r_tcget(fd)

    def tcsetattr(fd, when, attrs):
        if not isinstance(fd, int) and hasattr(fd, "fileno"):
            fd = fd.fileno()
        if _is_fake(fd):
            o = _obj(fd)
            if not isinstance(o, SimTTY):
                raise _real_termios.error(errno.ENOTTY, "Inappropriate ioctl for device")
            o.attrs = _copy_attrs(attrs)
            o.tcset_calls += 1
            current().log.add("tcsetattr", [o.name, when])
            return None
        return r_tcset(fd, when, attrs)

    def setcbreak(fd, when=_real_termios.TCSAFLUSH):
        if not isinstance(fd, int) and hasattr(fd, "fileno"):
            fd = fd.fileno()
        if _is_fake(fd):
            mode = tcgetattr(fd)
            new = _copy_attrs(mode)
            if hasattr(_real_tty, "cfmakecbreak"):
                _real_tty.cfmakecbreak(new)
            else:  # pragma: no cover
                new[3] &= ~(_real_termios.ECHO | _real_termios.ICANON)
                new[6][_real_termios.VMIN] = 1
                new[6][_real_termios.VTIME] = 0
            tcsetattr(fd, when, new)
            return mode
        return r_setcbreak(fd, when)

    r_kill = _real_os.kill

    def os_kill(pid, sig):
        # a signal the program sends to itself (urwid's SIGTSTP handler re-raises the signal to get stopped):
        # decided by the simulated environment when a run has registered for it
        if _WORLD is not None and _WORLD.on_self_signal is not None and pid == _real_os.getpid():
            return _WORLD.on_self_signal(sig)
        return r_kill(pid, sig)

    _real_os.kill = os_kill
    _real_os.read = os_read
    _real_os.write = os_write
    _real_os.close = os_close
    _real_os.isatty = os_isatty
    _real_os.fdopen = os_fdopen
    _real_fcntl.fcntl = fcntl_fcntl
    _real_fcntl.ioctl = fcntl_ioctl
    _real_termios.tcgetattr = tcgetattr
    _real_termios.tcsetattr = tcsetattr
    _real_tty.setcbreak = setcbreak


class FakeFileObject:
    """What os.fdopen(fake_fd) returns (zmq loop wraps integer fds this way)."""

    def __init__(self, o: FakeFile) -> None:
        self._o = o

    def fileno(self) -> int:
        return self._o.fd

    def close(self) -> None:
        pass

    def __repr__(self) -> str:
        return f"<fakefile {self._o.name}>"


# ---------------------------------------------------------------------------------------------
# module-attribute seams

_MODULE_SEAMS_DONE = False


def install_module_seams() -> None:
    """Replace the `time`, `selectors` and `socket` module attributes inside urwid modules by
    proxies bound to the current world.  Idempotent; proxies look the world up at call time."""
    global _MODULE_SEAMS_DONE  # noqa: PLW0603
    if _MODULE_SEAMS_DONE:
        return
    _MODULE_SEAMS_DONE = True
    install_global_wrappers()
    import urwid.display._posix_raw_display as prd  # noqa: PLC0415
    import urwid.display._raw_display_base as rdb  # noqa: PLC0415
    import urwid.event_loop.main_loop as ml  # noqa: PLC0415
    import urwid.event_loop.select_loop as sl  # noqa: PLC0415

    ftime = FakeTimeModule(current)
    fsel = FakeSelectorsModule()
    sl.time = ftime
    sl.selectors = fsel
    ml.time = ftime
    rdb.selectors = fsel
    prd.selectors = fsel
    rdb.socket = FakeSocketModule(current)
    try:
        import urwid.event_loop.zmq_loop as zl  # noqa: PLC0415

        zl.time = ftime
    except ImportError:
        pass


def activate(world: World) -> None:
    global _WORLD  # noqa: PLW0603
    install_module_seams()
    _WORLD = world
    _arm_spin_timer()  # every simulated run starts with a full CPU-time budget (an engine may execute hundreds per scenario)


def deactivate() -> None:
    global _WORLD  # noqa: PLW0603
    _WORLD = None


def make_pipe(world: World, name: str) -> tuple[ByteQueue, PipeWriter]:
    rd = ByteQueue(world, f"{name}.rd")
    wr = PipeWriter(world, f"{name}.wr", rd)
    return rd, wr


class FakeOsForMainLoop(types.ModuleType):
    """`os` attribute of urwid.event_loop.main_loop: pipe() creates fake pipes."""

    def __init__(self) -> None:
        super().__init__("os")

    def pipe(self):
        w = current()
        n = w.counter("pipe")
        rd, wr = make_pipe(w, f"pipe{n}")
        return rd.fd, wr.fd

    def __getattr__(self, name):
        return getattr(_real_os, name)


def install_main_loop_os() -> None:
    import urwid.event_loop.main_loop as ml  # noqa: PLC0415

    if not isinstance(ml.os, FakeOsForMainLoop):
        ml.os = FakeOsForMainLoop()
