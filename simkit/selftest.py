"""Self-tests of the machinery (DESIGN.md section 7):

  vf selftest determinism [Cxx ...] [-n K]   same seeds -> same digests: 16 workers vs 3 workers vs a fresh
                                             interpreter with another PYTHONHASHSEED
  vf selftest refterm                        hand-derived expectations for the reference terminal
  vf selftest pty                            fake tty vs a real pty: termios after setcbreak/restore, output bytes
"""

from __future__ import annotations

import os

from . import runner
from .core import HarnessError


def determinism(props, get_engine, k0: int) -> int:
    bad = 0
    for prop in props:
        eng = get_engine(prop)
        k = min(k0, getattr(eng, "selftest_n", k0))
        a = runner.run_batch(eng, "quick", 0, 16, n_override=k, keep_digests=k)["first_digests"]
        b = runner.run_batch(eng, "quick", 0, 3, n_override=k, keep_digests=k)["first_digests"]
        idx = sorted(a)
        fresh = {}
        step = 200
        for lo in range(0, min(len(idx), 400), step):
            fresh.update(runner.fresh_digests(prop, "quick", 0, idx[lo : lo + step], "777"))
        d1 = [i for i in idx if a[i] != b.get(i)]
        d2 = [i for i in fresh if a[i] != fresh[i]]
        print(f"{prop}: {len(idx)} seeds x (16 workers, 3 workers), {len(fresh)} re-run in a fresh interpreter with PYTHONHASHSEED=777: "
              f"{len(d1)} worker-count differences, {len(d2)} fresh-interpreter differences")
        if d1 or d2:
            bad += 1
            print(f"  NONDETERMINISTIC indices: {(d1 + d2)[:10]}")
    return 2 if bad else 0


def refterm() -> int:
    from .refterm import RefTerm

    cases = []

    def case(name, cols, rows, data, expect_rows=None, cursor=None, scroll=None, pending=None):
        t = RefTerm(cols, rows)
        t.feed(data)
        ok = True
        if expect_rows is not None and t.dump() != expect_rows:
            ok = False
        if cursor is not None and (t.x, t.y) != cursor:
            ok = False
        if scroll is not None and t.scroll_events != scroll:
            ok = False
        if pending is not None and t.wrap_pending != pending:
            ok = False
        cases.append((name, ok, t.dump(), (t.x, t.y), t.scroll_events))

    # VT100 user guide ch.3 / xterm ctlseqs, hand-derived
    case("deferred wrap: last column keeps the cursor, no scroll", 3, 2, "abc", ["abc", "   "], (2, 0), 0, True)
    case("next printable wraps", 3, 2, "abcd", ["abc", "d  "], (1, 1), 0, False)
    case("wrap at bottom scrolls", 3, 2, "abcdefg", ["def", "g  "], (1, 1), 1)
    case("CUP clears pending wrap", 3, 2, "abc\x1b[1;1HX", ["Xbc", "   "], (1, 0), 0)
    case("CR LF", 4, 3, "ab\r\ncd", ["ab  ", "cd  ", "    "], (2, 1), 0)
    case("LF at bottom scrolls region", 3, 3, "a\r\nb\r\nc\r\nd", ["b  ", "c  ", "d  "], (1, 2), 1)
    case("EL 0 erases from cursor inclusive", 5, 1, "abcde\x1b[1;3H\x1b[K", ["ab   "], (2, 0))
    case("EL 1 erases to cursor inclusive", 5, 1, "abcde\x1b[1;3H\x1b[1K", ["   de"], (2, 0))
    case("ED 1 erases to cursor inclusive", 3, 2, "abcdef\x1b[2;2H\x1b[1J", ["   ", "  f"], (1, 1))
    case("insert mode shifts right, drops overflow", 5, 1, "abcde\x1b[1;2H\x1b[4hX\x1b[4l", ["aXbcd"], (2, 0))
    case("ICH", 5, 1, "abcde\x1b[1;2H\x1b[2@", ["a  bc"], (1, 0))
    case("DCH", 5, 1, "abcde\x1b[1;2H\x1b[2P", ["ade  "], (1, 0))
    case("ECH", 5, 1, "abcde\x1b[1;2H\x1b[2X", ["a  de"], (1, 0))
    case("IL pushes bottom line out", 2, 4, "A\r\nB\r\nC\r\nD\x1b[2;1H\x1b[L", ["A ", "  ", "B ", "C "], (0, 1))
    case("DL pulls lines up", 2, 4, "A\r\nB\r\nC\r\nD\x1b[2;1H\x1b[M", ["A ", "C ", "D ", "  "], (0, 1))
    case("DECSTBM homes cursor; LF inside region scrolls region only", 2, 4, "A\r\nB\r\nC\r\nD\x1b[2;3r\x1b[3;1H\n", ["A ", "C ", "  ", "D "], (0, 2), 1)
    case("RI at top margin scrolls down", 2, 3, "A\r\nB\r\nC\x1b[1;1H\x1bM", ["  ", "A ", "B "], (0, 0), 1)
    case("CUU stops at top margin", 2, 4, "\x1b[2;3r\x1b[3;1H\x1b[5A", None, (0, 1))
    case("CUD stops at bottom margin from above", 2, 4, "\x1b[2;3r\x1b[1;1H\x1b[5B", None, (0, 2))
    case("wide char wraps when it does not fit", 3, 2, "ab日", ["ab ", "日 "], (2, 1), 0)
    case("backspace from pending wrap", 3, 1, "abc\bX", ["aXc"], (2, 0))
    case("alternate buffer restores", 3, 1, "abc\x1b[?1049hxy\x1b[?1049l", ["abc"], None)
    t = RefTerm(4, 1)
    t.feed("\x1b[0;1;38;5;200;48;2;1;2;3mA\x1b[0;7;33mB\x1b[mC")
    a, b, c = (t.grid[0][i].attr for i in range(3))
    sgr_ok = (a.fg, a.bg, a.bold) == (("i", 200), ("rgb", 1, 2, 3), True) and (b.fg, b.reverse, b.bold) == (("i", 3), True, False) and c.key() == RefTerm(1, 1).attr.key()
    cases.append(("SGR 256/truecolour/reset", sgr_ok, t.dump(), (t.x, t.y), 0))
    t = RefTerm(3, 1, dialect="V")
    t.feed("ab\x1b[6n\x1b[5n\x1b[c")
    cases.append(("DSR/CPR/DA replies", t.replies == ["\x1b[1;3R", "\x1b[0n", "\x1b[?6c"], t.replies, (t.x, t.y), 0))
    bad = [c for c in cases if not c[1]]
    for name, ok, dump, cur, sc in cases:
        print(f"  {'ok  ' if ok else 'FAIL'} {name}" + ("" if ok else f"  got {dump!r} cursor {cur} scroll {sc}"))
    print(f"refterm: {len(cases) - len(bad)}/{len(cases)} hand-derived expectations hold")
    return 2 if bad else 0


def pty_calibration() -> int:
    """The fake tty against a real pty pair: tty.setcbreak / restore on both, compare the attribute changes."""
    import termios
    import tty

    from . import world as W

    try:
        master, slave = os.openpty()
    except OSError as e:
        print(f"pty: skipped ({e})")
        return 0
    try:
        real0 = termios.tcgetattr(slave)
        tty.setcbreak(slave)
        real1 = termios.tcgetattr(slave)
        termios.tcsetattr(slave, termios.TCSAFLUSH, real0)
        real2 = termios.tcgetattr(slave)
    finally:
        os.close(master)
        os.close(slave)
    w = W.World()
    W.activate(w)
    try:
        t = W.SimTTY(w)
        fake0 = termios.tcgetattr(t.fd)
        tty.setcbreak(t.fd)
        fake1 = termios.tcgetattr(t.fd)
        termios.tcsetattr(t.fd, termios.TCSAFLUSH, fake0)
        fake2 = termios.tcgetattr(t.fd)
    finally:
        W.deactivate()

    def delta(a, b):
        return [(i, a[i] ^ b[i]) for i in range(4) if a[i] != b[i]] + [("cc", i) for i in range(min(len(a[6]), len(b[6]))) if a[6][i] != b[6][i]]

    ok = delta(real0, real1) == delta(fake0, fake1) and real2 == real0 and fake2 == fake0
    print(f"pty: setcbreak changes real {delta(real0, real1)} fake {delta(fake0, fake1)}; restore exact real={real2 == real0} fake={fake2 == fake0}")
    return 0 if ok else 2


def main(argv, get_engine, engines) -> int:
    if not argv:
        print(__doc__)
        return 2
    if argv[0] == "determinism":
        k = 2000
        rest = argv[1:]
        if "-n" in rest:
            k = int(rest[rest.index("-n") + 1])
            del rest[rest.index("-n") : rest.index("-n") + 2]
        props = rest or sorted(engines)
        return determinism(props, get_engine, k)
    if argv[0] == "refterm":
        return refterm()
    if argv[0] == "pty":
        return pty_calibration()
    raise HarnessError(f"unknown selftest {argv[0]}")
