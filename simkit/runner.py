"""Batch runner: seeded generation, parallel execution, aggregation, known findings,
reduction, replay files, evidence.  Exit codes: 0 ok, 1 VIOLATION, 2 harness error."""

from __future__ import annotations

import concurrent.futures as cf
import faulthandler
import json
import multiprocessing
import os
import random
import subprocess
import sys
import time
import traceback

from . import core, findings, reduce as reducer
from .core import HarnessError, Violation, derive_seed

RUN_WATCHDOG_S = 120


class Result:
    """Outcome of executing one scenario."""

    __slots__ = ("digest", "faults", "info", "nontrivial", "probes", "sim_time", "states", "violations")

    def __init__(self) -> None:
        self.digest = ""
        self.violations: list[Violation] = []
        self.nontrivial = False
        self.probes: dict[str, int] = {}
        self.faults: dict[str, int] = {}
        self.states: set[str] = set()
        self.sim_time = 0.0
        self.info: dict = {}

    def probe(self, name: str, n: int = 1) -> None:
        self.probes[name] = self.probes.get(name, 0) + n

    def fault(self, name: str, n: int = 1) -> None:
        self.faults[name] = self.faults.get(name, 0) + n

    def violate(self, prop: str, clause: str, signature: str, message: str = "") -> None:
        self.violations.append(Violation(prop, clause, signature, message))


class Engine:
    """Interface every props/cNN.py implements."""

    prop = "C00"
    name = "engine"
    level = "exploration"
    tiers = {"quick": 100, "thorough": 1000}
    rule = ""
    assumptions: list[str] = []
    components: dict = {}
    reducible = ("ops",)
    required_probes: tuple[str, ...] = ()

    def generate(self, rng: random.Random, tier: str) -> dict:
        raise NotImplementedError

    def execute(self, scenario: dict) -> Result:
        raise NotImplementedError

    def simplify(self, scenario: dict):
        """Yield one-step simplifications of a scenario (optional)."""
        return iter(())

    def extra_scenarios(self, tier: str) -> list[dict]:
        """Deterministic scenarios executed in addition to the generated ones (enumerations)."""
        return []


def scenario_size(s: dict) -> int:
    return len(json.dumps(s, sort_keys=True, default=str))


def make_scenario(engine: Engine, batch_seed: int, index: int, tier: str) -> dict:
    seed = derive_seed(batch_seed, engine.prop, index)
    rng = random.Random(seed)
    scen = engine.generate(rng, tier)
    scen.setdefault("format", 1)
    scen["property"] = engine.prop
    scen["engine"] = engine.name
    scen["batch_seed"] = batch_seed
    scen["index"] = index
    scen["run_seed"] = seed
    return scen


_REPLAY_ONLY_KEYS = ("violation", "digest", "reduced_from", "repo")


def canonical(scen: dict) -> dict:
    """The scenario as every execution sees it: what a replay file would contain after a JSON round trip (key order
    sorted, tuples as lists, no replay-only bookkeeping), so that a run inside a batch and the replay of its file
    produce the same event log byte for byte (logs may render parts of the scenario with repr())."""
    return json.loads(json.dumps({k: v for k, v in scen.items() if k not in _REPLAY_ONLY_KEYS}, sort_keys=True, default=str))


def safe_execute(engine: Engine, scen: dict) -> Result:
    scen = canonical(scen)
    faulthandler.dump_traceback_later(RUN_WATCHDOG_S, exit=True)
    old = core.install_spin_timer()
    try:
        try:
            return engine.execute(scen)
        except core.SpinTimeout as e:
            # an engine that has no place of its own for "the program never waits again"
            res = Result()
            res.violate(engine.prop, f"{engine.prop}.0", "program-spins-without-reaching-a-simulated-wait", str(e))
            res.digest = "spin-timeout"
            return res
    finally:
        core.remove_spin_timer(old)
        faulthandler.cancel_dump_traceback_later()


def _new_agg() -> dict:
    return {
        "runs": 0,
        "nontrivial_digests": set(),
        "digests": set(),
        "states": set(),
        "probes": {},
        "faults": {},
        "sim_time": 0.0,
        "viol": {},  # key -> (size, scenario, violation json, count)
        "viol_count": 0,
        "samples": [],
        "first_digests": {},
    }


def _merge_counts(dst: dict, src: dict) -> None:
    for k, v in src.items():
        dst[k] = dst.get(k, 0) + v


def _account(agg: dict, scen: dict, res: Result, keep_sample: bool) -> None:
    agg["runs"] += 1
    d8 = res.digest[:16]
    agg["digests"].add(d8)
    if res.nontrivial:
        agg["nontrivial_digests"].add(d8)
    agg["states"].update(res.states)
    _merge_counts(agg["probes"], res.probes)
    _merge_counts(agg["faults"], res.faults)
    agg["sim_time"] += res.sim_time
    if keep_sample and len(agg["samples"]) < 3:
        agg["samples"].append(scen)
    for v in res.violations:
        agg["viol_count"] += 1
        k = v.key()
        size = scenario_size(scen)
        cur = agg["viol"].get(k)
        if cur is None:
            agg["viol"][k] = [size, scen, v.to_json(), 1]
        else:
            cur[3] += 1
            if size < cur[0]:
                cur[0], cur[1], cur[2] = size, scen, v.to_json()


def _merge_agg(dst: dict, src: dict) -> None:
    dst["runs"] += src["runs"]
    dst["digests"] |= src["digests"]
    dst["nontrivial_digests"] |= src["nontrivial_digests"]
    dst["states"] |= src["states"]
    _merge_counts(dst["probes"], src["probes"])
    _merge_counts(dst["faults"], src["faults"])
    dst["sim_time"] += src["sim_time"]
    dst["viol_count"] += src["viol_count"]
    for s in src["samples"]:
        if len(dst["samples"]) < 3:
            dst["samples"].append(s)
    for k, rec in src["viol"].items():
        cur = dst["viol"].get(k)
        if cur is None:
            dst["viol"][k] = rec
        else:
            cur[3] += rec[3]
            if rec[0] < cur[0]:
                cur[0], cur[1], cur[2] = rec[0], rec[1], rec[2]
    dst["first_digests"].update(src["first_digests"])


_ENGINE: Engine | None = None


def _worker_chunk(args: tuple) -> dict:
    batch_seed, tier, lo, hi, n_first = args
    engine = _ENGINE
    agg = _new_agg()
    for i in range(lo, hi):
        scen = make_scenario(engine, batch_seed, i, tier)
        try:
            res = safe_execute(engine, scen)
        except HarnessError as e:
            return {"harness_error": f"index {i}: {e}\n{traceback.format_exc()}", "scenario": scen}
        except BaseException as e:  # noqa: BLE001
            return {
                "harness_error": f"index {i}: unexpected {type(e).__name__}: {e}\n{traceback.format_exc()}",
                "scenario": scen,
            }
        _account(agg, scen, res, keep_sample=(i % 997 == 0 or i < 2))
        if i < n_first:
            agg["first_digests"][i] = res.digest
    return agg


def load_corpus(prop: str) -> list[dict]:
    """Regression scenarios (minimised replays of fixed defects, hand-written cases): run first."""
    d = os.path.join(core.VERIF_DIR, "corpus", prop)
    out = []
    if os.path.isdir(d):
        for fn in sorted(os.listdir(d)):
            if fn.endswith(".json"):
                with open(os.path.join(d, fn)) as f:
                    scen = json.load(f)
                for k in ("violation", "digest", "reduced_from", "repo"):
                    scen.pop(k, None)
                scen["index"] = f"corpus/{fn}"
                out.append(scen)
    return out


def run_batch(engine: Engine, tier: str, batch_seed: int, jobs: int, n_override: int | None = None, keep_digests: int = 24) -> dict:
    """Run the generated part of a batch in parallel; returns the aggregate."""
    global _ENGINE  # noqa: PLW0603
    _ENGINE = engine
    n = n_override if n_override is not None else engine.tiers[tier]
    agg = _new_agg()
    extras = load_corpus(engine.prop) + engine.extra_scenarios(tier)
    for j, scen in enumerate(extras):
        scen.setdefault("format", 1)
        scen["property"] = engine.prop
        scen["engine"] = engine.name
        scen.setdefault("index", f"extra-{j}")
        res = safe_execute(engine, scen)
        _account(agg, scen, res, keep_sample=(j < 1))
    n_first = min(n, keep_digests)
    if jobs <= 1 or n < 32:
        part = _worker_chunk((batch_seed, tier, 0, n, n_first))
        if "harness_error" in part:
            raise HarnessError(part["harness_error"])
        _merge_agg(agg, part)
        return agg
    chunk = max(1, min(2000, n // (jobs * 6)))
    tasks = [(batch_seed, tier, lo, min(n, lo + chunk), n_first) for lo in range(0, n, chunk)]
    ctx = multiprocessing.get_context("fork")
    with cf.ProcessPoolExecutor(max_workers=jobs, mp_context=ctx) as pool:
        futs = [pool.submit(_worker_chunk, t) for t in tasks]
        try:
            for f in cf.as_completed(futs):
                part = f.result()
                if "harness_error" in part:
                    for g in futs:
                        g.cancel()
                    raise HarnessError(part["harness_error"])
                _merge_agg(agg, part)
        except cf.process.BrokenProcessPool as e:
            raise HarnessError(f"worker died (watchdog or crash): {e}") from e
    return agg


def fresh_digests(prop: str, tier: str, batch_seed: int, indices: list[int], hashseed: str) -> dict[int, str]:
    env = dict(os.environ)
    env["PYTHONHASHSEED"] = hashseed
    env["VERIF_NO_REEXEC"] = "1"
    cmd = [sys.executable, os.path.join(core.VERIF_DIR, "vfmain.py"), "digest", prop, tier, str(batch_seed)]
    cmd += [str(i) for i in indices]
    out = subprocess.run(cmd, env=env, capture_output=True, text=True, timeout=600, check=False)
    if out.returncode != 0:
        raise HarnessError(f"digest subprocess failed rc={out.returncode}: {out.stderr[-2000:]}")
    res = {}
    for line in out.stdout.splitlines():
        if line.startswith("DIGEST "):
            _, i, d = line.split()
            res[int(i)] = d
    return res


def repo_head() -> dict:
    try:
        head = subprocess.run(
            ["git", "-C", core.REPO_DIR, "rev-parse", "HEAD"], capture_output=True, text=True, check=False
        ).stdout.strip()
        dirty = bool(
            subprocess.run(
                ["git", "-C", core.REPO_DIR, "status", "--porcelain", "--untracked-files=no"],
                capture_output=True,
                text=True,
                check=False,
            ).stdout.strip()
        )
    except OSError:
        head, dirty = "?", False
    return {"head": head, "dirty": dirty}


def write_replay(engine: Engine, scen: dict, viol: dict, digest: str, reduced_from: dict) -> str:
    d = os.path.join(core.VERIF_DIR, "replays")
    os.makedirs(d, exist_ok=True)
    out = dict(scen)
    out["violation"] = viol
    out["digest"] = digest
    out["reduced_from"] = reduced_from
    out["repo"] = repo_head()
    tag = str(scen.get("run_seed", scen.get("index", "x"))).replace("/", "_").replace(".json", "")
    path = os.path.join(d, f"{engine.prop}-{tag}-{abs(hash_str(viol['clause'] + viol['signature'])) % 100000}.json")
    with open(path, "w") as f:
        json.dump(out, f, indent=1, sort_keys=True)
    return path


def hash_str(s: str) -> int:
    import hashlib

    return int.from_bytes(hashlib.sha256(s.encode()).digest()[:4], "big")


def check(engine: Engine, tier: str, batch_seed: int, jobs: int, n_override: int | None = None) -> int:
    t0 = time.time()
    known = findings.load()
    agg = run_batch(engine, tier, batch_seed, jobs, n_override)
    t_batch = time.time() - t0

    # determinism spot check in a fresh interpreter with another hash seed
    det_checked = 0
    if agg["first_digests"] and os.environ.get("VERIF_SKIP_DET") != "1":
        idx = sorted(agg["first_digests"])
        other = fresh_digests(engine.prop, tier, batch_seed, idx, "12345")
        for i in idx:
            if other.get(i) != agg["first_digests"][i]:
                raise HarnessError(
                    f"nondeterminism: index {i} digest {agg['first_digests'][i]} vs fresh interpreter {other.get(i)}"
                )
        det_checked = len(idx)

    # classify violations
    exit_code = 0
    known_lines = []
    new_viol = 0
    replays = []
    for (clause, sig), (_size, scen, vj, count) in sorted(agg["viol"].items()):
        ent = findings.match(known, engine.prop, clause, sig)
        if ent is not None:
            known_lines.append((ent, count))
            continue
        new_viol += 1
        if len(replays) >= 8:
            # enough reductions for one invocation: keep the (unreduced) scenario as the replay file
            res = safe_execute(engine, scen)
            path = write_replay(engine, scen, vj, res.digest, {"note": "not reduced (more than 8 distinct violations)"})
            replays.append(path)
            print(f"VIOLATION property={engine.prop} replay={path}")
            print(f"  clause={clause} signature={sig} occurrences={count}")
            exit_code = 1
            continue
        red, digest, stats = reducer.reduce(engine, scen, (clause, sig))
        res = safe_execute(engine, red)
        vv = [v for v in res.violations if v.key() == (clause, sig)]
        vjson = vv[0].to_json() if vv else vj
        path = write_replay(engine, red, vjson, res.digest, stats)
        replays.append(path)
        print(f"VIOLATION property={engine.prop} replay={path}")
        print(f"  clause={clause} signature={sig} occurrences={count}")
        print(f"  {vjson.get('message', '')[:600]}")
        exit_code = 1
    seen = set()
    for ent, count in known_lines:
        if ent["id"] in seen:
            continue
        seen.add(ent["id"])
        total = sum(c for e, c in known_lines if e["id"] == ent["id"])
        print(f"KNOWN-FINDING: property={engine.prop} {ent['id']}: {ent['what'][:400]} (seen {total}x in this run)")

    missing = [p for p in engine.required_probes if not agg["probes"].get(p)]
    wall = time.time() - t0
    write_evidence(engine, tier, batch_seed, agg, wall, t_batch, new_viol, det_checked, missing, known_lines)
    if missing and tier == "thorough" and exit_code == 0 and n_override is None:
        print(f"HARNESS-ERROR: probes never hit in thorough tier: {missing}")
        return 2
    print(
        f"{engine.prop} {tier}: runs={agg['runs']} distinct_digests={len(agg['digests'])} "
        f"nontrivial_distinct={len(agg['nontrivial_digests'])} states={len(agg['states'])} "
        f"violations_new={new_viol} known_hits={sum(c for _, c in known_lines)} wall={wall:.1f}s"
    )
    return exit_code


def write_evidence(engine, tier, batch_seed, agg, wall, t_batch, new_viol, det_checked, missing, known_lines) -> None:
    d = os.environ.get("VERIF_EVIDENCE_DIR") or os.path.join(core.VERIF_DIR, "evidence")
    os.makedirs(d, exist_ok=True)
    runs = agg["runs"]
    ev = {
        "property_id": engine.prop,
        "tier": tier,
        "seed": batch_seed,
        "level": engine.level,
        "coverage": {
            "evaluations": runs,
            "distinct_nontrivial": len(agg["nontrivial_digests"]),
            "rule": engine.rule,
            "samples": agg["samples"][:3],
            "distinct_run_digests": len(agg["digests"]),
            "distinct_abstract_states": len(agg["states"]),
            "simulated_seconds": round(agg["sim_time"], 3),
            "runs_per_hour": int(runs / max(t_batch, 1e-6) * 3600),
            "faults_fired": dict(sorted(agg["faults"].items())),
            "probes": dict(sorted(agg["probes"].items())),
            "probes_required_but_zero": missing,
            "determinism_rechecked_in_fresh_interpreter": det_checked,
            "components": engine.components,
            "known_findings_hit": sorted({e["id"] for e, _ in known_lines}),
            "known_finding_occurrences": sum(c for _, c in known_lines),
            "exhaustive": False,
        },
        "assumptions": list(engine.assumptions),
        "wall_s": round(wall, 2),
        "violations": new_viol,
    }
    path = os.path.join(d, f"{engine.prop}.json")
    with open(path, "w") as f:
        json.dump(ev, f, indent=1, sort_keys=True, default=str)


def replay(engine: Engine, path: str) -> int:
    with open(path) as f:
        scen = json.load(f)
    want = scen.get("violation")
    res = safe_execute(engine, scen)
    print(f"replay digest={res.digest}")
    for v in res.violations:
        print(f"  {v!r}")
    if want is None:
        return 1 if res.violations else 0
    same = [v for v in res.violations if v.clause == want["clause"] and v.signature == want["signature"]]
    if same and (not scen.get("digest") or scen["digest"] == res.digest):
        print(f"VIOLATION property={engine.prop} replay={path}")
        print("reproduced: same clause, signature and digest")
        return 1
    if same:
        print(f"reproduced violation but digest differs: file={scen.get('digest')} now={res.digest}")
        print(f"VIOLATION property={engine.prop} replay={path}")
        return 1
    print("NOT REPRODUCED: the recorded violation does not occur on this tree")
    return 1 if res.violations else 0
