"""Adapters that put each bundled urwid event loop on the simulated world.

make_loop(kind, world) -> LoopBox with .loop (the real urwid EventLoop object), .fd(obj) (what
to hand to watch_file for a fake file) and .cleanup().  All urwid loop code is real; what is
replaced is listed per kind in DESIGN.md section 3.2.
"""

from __future__ import annotations

import asyncio
import logging
import os
import signal

from . import aioloop
from . import world as W
from .core import HarnessError

KINDS = ("select", "asyncio", "tornado", "twisted", "zmq", "trio")

for _n in ("tornado.application", "tornado.general", "tornado.access", "asyncio", "twisted", "trio", "trio.abc.Instrument"):
    logging.getLogger(_n).setLevel(logging.CRITICAL + 1)
logging.getLogger("tornado.application").propagate = False
logging.getLogger("asyncio").propagate = False
logging.getLogger("trio.abc.Instrument").propagate = False


class LoopBox:
    def __init__(self, kind: str, loop, cleanup=None) -> None:
        self.kind = kind
        self.loop = loop
        self._cleanup = cleanup
        self.extra = {}

    def cleanup(self) -> None:
        if self._cleanup is not None:
            c, self._cleanup = self._cleanup, None
            c()


def real_fd_snapshot() -> frozenset[int]:
    try:
        return frozenset(int(x) for x in os.listdir("/proc/self/fd"))
    except OSError:
        return frozenset()


SIGS = (signal.SIGINT, signal.SIGTERM, signal.SIGCHLD, signal.SIGWINCH, signal.SIGTSTP, signal.SIGCONT)


def signal_snapshot() -> tuple:
    return tuple(signal.getsignal(s) for s in SIGS)


# ---------------------------------------------------------------------------------------------


class SimPoller:
    """zmq.Poller stand-in.  Calibrated against the real one: a registered file object is
    reported as (fileno, POLLIN); unregistering something unknown raises KeyError."""

    def __init__(self) -> None:
        self.world = W.current()
        self.items: list[tuple[object, int]] = []

    @staticmethod
    def _key(obj):
        return obj.fileno() if hasattr(obj, "fileno") and not isinstance(obj, int) else obj

    def register(self, obj, flags=1) -> None:
        for i, (o, _f) in enumerate(self.items):
            if o is obj or o == obj:
                self.items[i] = (obj, flags)
                return
        self.items.append((obj, flags))

    def unregister(self, obj) -> None:
        for i, (o, _f) in enumerate(self.items):
            if o is obj or o == obj:
                del self.items[i]
                return
        raise KeyError(obj)

    def poll(self, timeout=None):
        w = self.world
        keys = [self._key(o) for o, _ in self.items]

        def ready():
            r = [k for k in keys if isinstance(k, int) and w.fd_readable(k)]
            return w.order_ready(r)

        t = None if timeout is None else timeout / 1000.0
        got = w.block(t, ready, [w.fd_name(k) if isinstance(k, int) else "sock" for k in keys])
        return [(k, 1) for k in got]


class _FakeZmq:
    POLLIN = 1
    POLLOUT = 2
    Poller = SimPoller

    def __getattr__(self, name):
        import zmq  # noqa: PLC0415

        return getattr(zmq, name)


_ZMQ_PATCHED = False


def _patch_zmq() -> None:
    global _ZMQ_PATCHED  # noqa: PLW0603
    if _ZMQ_PATCHED:
        return
    import urwid.event_loop.zmq_loop as zl  # noqa: PLC0415

    zl.zmq = _FakeZmq()
    _ZMQ_PATCHED = True


# ---------------------------------------------------------------------------------------------


def make_loop(kind: str, world: W.World) -> LoopBox:  # noqa: C901
    if kind == "select":
        from urwid.event_loop.select_loop import SelectEventLoop  # noqa: PLC0415

        return LoopBox(kind, SelectEventLoop())

    if kind == "asyncio":
        from urwid.event_loop.asyncio_loop import AsyncioEventLoop  # noqa: PLC0415

        lp = aioloop.new_loop(world)
        box = LoopBox(kind, AsyncioEventLoop(loop=lp), lp.close)
        # a second urwid loop object on the same asyncio loop (an application that builds two MainLoops up front)
        box.extra["make_decoy"] = lambda: AsyncioEventLoop(loop=lp)
        return box

    if kind == "tornado":
        from tornado.platform.asyncio import AsyncIOLoop  # noqa: PLC0415

        from urwid.event_loop.tornado_loop import TornadoEventLoop  # noqa: PLC0415

        lp = aioloop.new_loop(world)
        io = AsyncIOLoop(asyncio_loop=lp, make_current=False)
        io.time = lambda: world.clock.now

        def cleanup() -> None:
            try:
                io.close(all_fds=False)
            finally:
                if not lp.is_closed():
                    lp.close()

        box = LoopBox(kind, TornadoEventLoop(loop=io), cleanup)
        box.extra["make_decoy"] = lambda: TornadoEventLoop(loop=io)
        return box

    if kind == "twisted":
        from twisted.internet.asyncioreactor import AsyncioSelectorReactor  # noqa: PLC0415

        from urwid.event_loop.twisted_loop import TwistedEventLoop  # noqa: PLC0415

        lp = aioloop.new_loop(world)
        reactor = AsyncioSelectorReactor(lp)
        reactor.seconds = lambda: world.clock.now
        real_run = reactor.run
        # urwid calls reactor.run() with no arguments; process-global signal handlers and the
        # wake-up fd are not part of any property, so the reactor is told not to install them.
        reactor.run = lambda *a, **kw: real_run(installSignalHandlers=False)

        def cleanup() -> None:
            try:
                reactor.removeAll()
            except Exception:  # noqa: BLE001
                pass
            wk = getattr(reactor, "waker", None)
            if wk is not None:
                try:
                    wk.connectionLost(None)
                except Exception:  # noqa: BLE001
                    pass
            for dc in list(reactor.getDelayedCalls()):
                try:
                    dc.cancel()
                except Exception:  # noqa: BLE001
                    pass
            tp = getattr(reactor, "threadpool", None)
            if tp is not None:
                try:
                    tp.stop()
                except Exception:  # noqa: BLE001
                    pass
            if not lp.is_closed():
                lp.close()

        box = LoopBox(kind, TwistedEventLoop(reactor=reactor), cleanup)
        box.extra["make_decoy"] = lambda: TwistedEventLoop(reactor=reactor)
        return box

    if kind == "zmq":
        _patch_zmq()
        from urwid.event_loop.zmq_loop import ZMQEventLoop  # noqa: PLC0415

        return LoopBox(kind, ZMQEventLoop())

    if kind == "trio":
        from . import trioloop  # noqa: PLC0415

        return trioloop.make(world)

    raise HarnessError(f"unknown loop kind {kind}")


def restore_asyncio_state() -> None:
    try:
        asyncio.set_event_loop(None)
    except Exception:  # noqa: BLE001
        pass
