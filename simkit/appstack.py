"""A whole application on the simulated world: real MainLoop + real posix raw Screen on a fake tty +
a real event loop + RefTerm as the user's terminal, driven by timed external events.

Used by the widget engines (C07, C10, C20) for their "full stack" runs.  What the environment
decides here, and the direct-drive runs cannot express, is *batching*: bytes that are queued on the
tty at the same instant are decoded and offered to the widget tree in one MainLoop.process_input
call with no redraw in between; an application timer that fires in the same loop turn edits the
widgets before the redraw too; SIGWINCH lands wherever the schedule puts it.  Widgets that resolve
state lazily in render() (ListBox focus requests, Scrollable actions, Edit view shift) see exactly the
call sequences a live program produces.

Events (all times are seconds from the start, multiples of 1/1024):
  {"ev": "bytes", "t": t, "hex": "..."}         input arriving on the tty
  {"ev": "resize", "t": t, "cols": c, "rows": r}  SIGWINCH with a new window size
  {"ev": "app", "t": t, "op": {...}}            an application timer (MainLoop.set_alarm_at) whose
                                                callback hands `op` to the engine's apply_app()
The run ends with a quit key (f8 -> unhandled_input raises ExitMainLoop) 0.5 s after the last event.

on_stable(stack) is called whenever the loop is about to wait for more than LONG seconds with the
screen started, no resize pending and the terminal at the size MainLoop last drew: that is the
moment a user looks at the screen.
"""

from __future__ import annotations

import contextlib
import io
import signal

from . import loops
from . import world as W
from .core import Livelock, Quiescent
from .refterm import RefTerm

LONG = 0.01

KEY_BYTES = {
    "up": "1b5b41", "down": "1b5b42", "right": "1b5b43", "left": "1b5b44",
    "page up": "1b5b357e", "page down": "1b5b367e", "home": "1b5b48", "end": "1b5b46",
    "enter": "0d", "tab": "09", "backspace": "7f", "delete": "1b5b337e", "esc": "1b",
    "f5": "1b5b31357e", "f8": "1b5b31397e", "insert": "1b5b327e", "shift tab": "1b5b5a",
}  # fmt: skip


def key_hex(key: str) -> str | None:
    """Bytes an xterm sends for `key` (None when this harness has no encoding for it)."""
    if key in KEY_BYTES:
        return KEY_BYTES[key]
    if len(key) == 1 and (ord(key) >= 32 and ord(key) != 127):
        return key.encode("utf-8").hex()
    return None


def mouse_hex(button: int, x: int, y: int, release: bool = False) -> str:
    """SGR (1006) mouse report; buttons 4/5 are the wheel."""
    code = {1: 0, 2: 1, 3: 2, 4: 64, 5: 65}[button]
    return f"\x1b[<{code};{x + 1};{y + 1}{'m' if release else 'M'}".encode().hex()


class AppStack:
    def __init__(self, cfg: dict, res, top_widget_factory, apply_app, on_stable, palette=()) -> None:
        self.cfg = cfg
        self.res = res
        self.factory = top_widget_factory
        self.apply_app = apply_app
        self.on_stable = on_stable
        self.palette = list(palette)
        self.outcome = None
        self.stable_points = 0
        self.batches: list[list] = []  # keys of every input batch MainLoop processed (for probes)
        self.in_run = False
        self.stopping = False
        self.calls_since_stable = 0

    # ------------------------------------------------------------------------------------
    def run(self, events: list[dict]) -> str:  # noqa: C901, PLR0912, PLR0915
        import urwid  # noqa: PLC0415
        from urwid.display import _posix_raw_display as prd  # noqa: PLC0415

        cfg, res = self.cfg, self.res
        w = self.world = W.World(tiebreak=cfg.get("tiebreak", ()), seam_cap=40000)
        W.activate(w)
        W.install_main_loop_os()
        box = None
        saved = {s: signal.getsignal(s) for s in (signal.SIGWINCH, signal.SIGTSTP, signal.SIGCONT)}
        urwid.util.set_encoding("utf-8")
        urwid.CanvasCache.clear()
        try:
            cols, rows = cfg["size"]
            tty = self.tty = W.SimTTY(w, "tty", cols, rows)
            term = self.term = RefTerm(cols, rows)
            out = W.SimTTYOut(w, tty, term)
            # which SIGWINCH the application has caught up with: size asked for after the last one AND a frame drawn
            # after asking (the raw display consumes its resize flag before the resize has settled)
            self.winch_count = 0
            self.size_query_at = 0
            self.drawn_since_query = True

            def on_query():
                self.size_query_at = self.winch_count
                self.drawn_since_query = False

            tty.on_winsz_query = on_query
            screen = self.screen = prd.Screen(input=W.SimTTYIn(tty), output=out)
            real_draw = screen.draw_screen

            def draw_screen(size, canvas):
                rv = real_draw(size, canvas)
                self.drawn_since_query = True
                return rv

            screen.draw_screen = draw_screen
            box = loops.make_loop(cfg.get("loop", "select"), w)
            self.top = self.factory()

            def unhandled(key):
                if key == "f8":
                    self.stopping = True
                    raise urwid.ExitMainLoop
                return False

            def input_filter(keys, raw):
                self.batches.append(list(keys))
                n = sum(1 for k in keys if k != "window resize")
                if n >= 2:
                    res.probe("stack_batch_of_several_events")
                self.calls_since_stable += n
                return keys

            ml = self.ml = urwid.MainLoop(self.top, self.palette, screen=screen, handle_mouse=True, input_filter=input_filter, unhandled_input=unhandled, event_loop=box.loop)

            def make_app_cb(op):
                def cb(loop, data):
                    self.calls_since_stable += 1
                    w.log.add("app", repr(op)[:200])
                    self.apply_app(op)

                return cb

            t_last = 0.0
            for e in events:
                t = float(e.get("t", 0))
                t_last = max(t_last, t)
                k = e["ev"]
                if k == "bytes":
                    data = bytes.fromhex(e["hex"])
                    w.schedule(t, f"tty<{e['hex']}", lambda data=data: tty.feed(data))
                elif k == "resize":

                    def winch(c=e["cols"], r=e["rows"]):
                        tty.cols, tty.rows = c, r
                        term.resize(c, r)
                        self.winch_count += 1
                        res.fault("stack_sigwinch")
                        h = signal.getsignal(signal.SIGWINCH)
                        if callable(h):
                            h(signal.SIGWINCH, None)

                    w.schedule(t, f"sigwinch {e['cols']}x{e['rows']}", winch)
                elif k == "app":
                    ml.set_alarm_at(w.clock.now + t, make_app_cb(e["op"]))
            w.schedule(t_last + 0.5, "tty<quit", lambda: tty.feed(bytes.fromhex(KEY_BYTES["f8"])))
            w.on_block = self._on_block
            w.log.add("cfg", [cfg.get("loop", "select"), list(cfg["size"])])
            self.in_run = True
            try:
                if cfg.get("loop") == "twisted":
                    with contextlib.redirect_stdout(io.StringIO()):
                        ml.run()
                else:
                    ml.run()
                self.outcome = ("returned", None)
            except Quiescent:
                self.outcome = ("quiescent", None)
            except Livelock as e:
                self.outcome = ("livelock", e)
            except Exception as e:  # noqa: BLE001
                self.outcome = ("raised", e)
            finally:
                self.in_run = False
            w.log.add("end", [self.outcome[0], type(self.outcome[1]).__name__ if self.outcome[1] is not None else ""])
            res.sim_time += w.rel()
            for k, v in w.faults.items():
                res.fault(k, v)
            for k, v in w.probes.items():
                res.probe(k, v)
        finally:
            try:
                if getattr(self, "screen", None) is not None and self.screen.started:
                    with contextlib.suppress(Exception):
                        self.screen.stop()
            finally:
                if box is not None:
                    box.cleanup()
                W.deactivate()
                loops.restore_asyncio_state()
                for s, h in saved.items():
                    signal.signal(s, h if h is not None else signal.SIG_DFL)
                urwid.CanvasCache.clear()
        self.log_lines = w.log.lines
        return w.log.digest()

    # ------------------------------------------------------------------------------------
    def _on_block(self, timeout) -> None:
        if not self.in_run or self.stopping:
            return
        if timeout is not None and timeout <= LONG:
            return
        scr, ml, tty, term = self.screen, self.ml, self.tty, self.term
        if not scr.started:
            return
        if scr._resized or ml.screen_size is None or tuple(ml.screen_size) != (tty.cols, tty.rows):  # noqa: SLF001
            return
        if self.size_query_at != self.winch_count or not self.drawn_since_query:
            return
        if (term.cols, term.rows) != (tty.cols, tty.rows):
            return
        self.stable_points += 1
        self.res.probe("stack_stable_point")
        if self.calls_since_stable >= 2:
            self.res.probe("stack_several_events_before_one_redraw")
        self.calls_since_stable = 0
        self.world.log.add("stable", [tty.cols, tty.rows])
        self.on_stable(self)

    def size(self) -> tuple[int, int]:
        return (self.tty.cols, self.tty.rows)

    def screen_text(self) -> list[str]:
        return self.term.dump()

    def screen_cursor(self):
        return (self.term.x, self.term.y) if self.term.cursor_visible else None
