"""Known findings: genuine defects of the pinned tree that are recorded rather than repaired.

The file /verif/known_findings.json is read-only at run time.  An entry with status "known"
matches a violation iff the property is equal and the entry's clause and signature (regular
expressions, anchored) match the violation's clause and signature.  Entries with status "fixed" are
documentation only and match nothing.
"""

from __future__ import annotations

import json
import os
import re

from . import core


def load(path: str | None = None) -> list[dict]:
    path = path or os.path.join(core.VERIF_DIR, "known_findings.json")
    if not os.path.exists(path):
        return []
    with open(path) as f:
        data = json.load(f)
    return data.get("entries", [])


def match(entries: list[dict], prop: str, clause: str, signature: str) -> dict | None:
    for e in entries:
        if e.get("status") != "known":
            continue
        if e.get("property") != prop or not re.fullmatch(e.get("clause", ""), clause):
            continue
        if re.fullmatch(e["signature"], signature):
            return e
    return None
