"""Core vocabulary: seeds, event log, violations, classification of exceptions.

Nothing in here draws random numbers or reads a clock.
"""

from __future__ import annotations

import hashlib
import os
import sys
import traceback
from fractions import Fraction

VERIF_DIR = os.path.dirname(os.path.dirname(os.path.abspath(__file__)))
REPO_DIR = os.path.abspath(os.environ.get("VERIF_REPO", "/repo"))


def bootstrap_repo() -> str:
    """Put the repository under test at the head of sys.path and assert urwid comes from it."""
    if sys.path[0] != REPO_DIR:
        sys.path.insert(0, REPO_DIR)
    import urwid  # noqa: PLC0415

    got = os.path.abspath(urwid.__file__)
    if not got.startswith(REPO_DIR + os.sep):
        raise HarnessError(f"urwid imported from {got}, expected under {REPO_DIR}")
    return REPO_DIR


def derive_seed(batch_seed: int, prop: str, index: int) -> int:
    h = hashlib.sha256(f"{batch_seed}/{prop}/{index}".encode()).digest()
    return int.from_bytes(h[:8], "big") >> 1


class HarnessError(Exception):
    """Something is wrong with the verification machinery itself (exit 2, never a VIOLATION)."""


class Quiescent(BaseException):
    """Raised by a seam when the simulated system would block forever."""


class BlockedForever(Quiescent):
    """The program sits in a blocking read on a descriptor nothing will ever be written to again."""


class Livelock(BaseException):
    """Raised by a seam when the per-run cap on seam calls is exceeded."""


class SpinTimeout(Livelock):
    """The program under test has burnt SPIN_CPU_S seconds of CPU time without reaching any simulated wait: it spins
    outside every seam (e.g. an event loop that has nothing left to watch and no alarm polls in a tight loop).  Step and
    seam caps cannot see that, a wall-clock watchdog would depend on the machine's load; the process's own CPU time does
    not.  Raised from a SIGVTALRM handler, so it surfaces inside the spinning code like a seam's Livelock does."""


SPIN_CPU_S = 10.0


_SPIN_FIRED = 0


def _spin_handler(signum, frame):
    global _SPIN_FIRED  # noqa: PLW0603
    _SPIN_FIRED += 1
    if os.environ.get("VERIF_SPIN_TRACE") and _SPIN_FIRED <= 2:
        import faulthandler  # noqa: PLC0415

        faulthandler.dump_traceback(all_threads=False)
    raise SpinTimeout(f"no simulated wait for {SPIN_CPU_S:.0f} s of CPU time")


_SPIN_INSTALLED = False


def arm_spin_timer() -> None:
    """(Re)start the CPU-time budget; called when a scenario starts, when a simulated world is activated and at every
    simulated wait.  Does nothing outside a scenario (no handler installed)."""
    import signal  # noqa: PLC0415

    if _SPIN_INSTALLED:
        signal.setitimer(signal.ITIMER_VIRTUAL, SPIN_CPU_S, 2.0)


def install_spin_timer():
    import signal  # noqa: PLC0415

    global _SPIN_INSTALLED  # noqa: PLW0603
    old = signal.signal(signal.SIGVTALRM, _spin_handler)
    _SPIN_INSTALLED = True
    arm_spin_timer()
    return old


def remove_spin_timer(old) -> None:
    import signal  # noqa: PLC0415

    global _SPIN_INSTALLED  # noqa: PLW0603
    signal.setitimer(signal.ITIMER_VIRTUAL, 0)
    _SPIN_INSTALLED = False
    signal.signal(signal.SIGVTALRM, old if old is not None else signal.SIG_DFL)


class Violation:
    __slots__ = ("clause", "message", "prop", "signature")

    def __init__(self, prop: str, clause: str, signature: str, message: str = "") -> None:
        self.prop = prop
        self.clause = clause
        self.signature = signature
        self.message = message

    def key(self) -> tuple[str, str]:
        return (self.clause, self.signature)

    def to_json(self) -> dict:
        return {"property": self.prop, "clause": self.clause, "signature": self.signature, "message": self.message}

    @classmethod
    def from_json(cls, d: dict) -> Violation:
        return cls(d["property"], d["clause"], d["signature"], d.get("message", ""))

    def __repr__(self) -> str:
        return f"Violation({self.clause}: {self.signature} -- {self.message[:200]})"


def fmt_time(t: float) -> str:
    """Canonical rendering of a virtual time (exact multiple of a binary fraction)."""
    f = Fraction(t).limit_denominator(1 << 24)
    return f"{f.numerator}/{f.denominator}" if f.denominator != 1 else str(f.numerator)


class EventLog:
    """Ordered (seq, vtime, kind, detail) tuples with a canonical text rendering and digest."""

    def __init__(self, clock=None, keep: bool = True) -> None:
        self.clock = clock
        self.lines: list[str] = []
        self.events: list[tuple[int, float, str, object]] = []
        self.keep = keep
        self.seq = 0
        self._h = hashlib.sha256()

    def add(self, kind: str, detail: object = "") -> int:
        self.seq += 1
        t = self.clock.now if self.clock is not None else 0.0
        line = f"{self.seq} {fmt_time(t)} {kind} {canon(detail)}"
        self._h.update(line.encode("utf-8", "backslashreplace"))
        self._h.update(b"\n")
        if self.keep:
            self.lines.append(line)
            self.events.append((self.seq, t, kind, detail))
        return self.seq

    def digest(self) -> str:
        return self._h.hexdigest()


def canon(x: object) -> str:
    """Canonical, hash-seed independent, address-free rendering."""
    if isinstance(x, str):
        return x
    if isinstance(x, float):
        return fmt_time(x)
    if isinstance(x, (bytes, bytearray)):
        return "x'" + bytes(x).hex() + "'"
    if isinstance(x, (list, tuple)):
        return "[" + ",".join(canon(i) for i in x) + "]"
    if isinstance(x, dict):
        return "{" + ",".join(f"{canon(k)}:{canon(v)}" for k, v in sorted(x.items(), key=lambda kv: str(kv[0]))) + "}"
    if isinstance(x, (set, frozenset)):
        return "{" + ",".join(sorted(canon(i) for i in x)) + "}"
    if isinstance(x, BaseException):
        return f"{type(x).__name__}({str(x)[:120]})"
    if x is None or isinstance(x, (bool, int)):
        return repr(x)
    return type(x).__name__


def innermost_file(exc: BaseException) -> tuple[str, str, int]:
    """(file, function, line) of the innermost traceback frame."""
    tb = exc.__traceback__
    last = None
    while tb is not None:
        last = tb
        tb = tb.tb_next
    if last is None:
        return ("?", "?", 0)
    code = last.tb_frame.f_code
    return (code.co_filename, code.co_name, last.tb_lineno)


def innermost_urwid_frame(exc: BaseException) -> tuple[str, str] | None:
    """(relative file, function) of the innermost frame that lies in the repository under test."""
    tb = exc.__traceback__
    found = None
    while tb is not None:
        fn = tb.tb_frame.f_code.co_filename
        if fn.startswith(REPO_DIR + os.sep):
            found = (os.path.relpath(fn, REPO_DIR), tb.tb_frame.f_code.co_name)
        tb = tb.tb_next
    return found


def raised_in_harness(exc: BaseException) -> bool:
    """True when the exception originates in /verif code and never passed through urwid frames
    below it (i.e. it is a bug in the machinery, not behaviour of the system under test)."""
    if getattr(exc, "verif_application_side", False):
        return False  # raised on purpose by a harness object that plays the application (a custom list walker)
    fn, _, _ = innermost_file(exc)
    if not fn.startswith(VERIF_DIR + os.sep):
        return False
    # innermost frame is ours.  If urwid called us (callback) and we blew up, that is still ours.
    return True


def exc_signature(exc: BaseException) -> str:
    """Short canonical description: exception type @ innermost urwid function."""
    fr = innermost_urwid_frame(exc)
    where = f"{fr[0]}:{fr[1]}" if fr else "outside-urwid"
    return f"{type(exc).__name__}@{where}"


def format_exc(exc: BaseException, limit: int = 12) -> str:
    return "".join(traceback.format_exception(type(exc), exc, exc.__traceback__, limit=-limit))


_FROZEN = False


def gc_freeze_once() -> None:
    """Move everything allocated so far (modules, third-party libraries) into the permanent
    generation so that the scheduled gc.collect() calls of a run only look at the run's objects."""
    global _FROZEN  # noqa: PLW0603
    if not _FROZEN:
        import gc  # noqa: PLC0415

        gc.collect()
        gc.freeze()
        _FROZEN = True
