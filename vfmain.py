"""vf: command line of the verification machinery (see DESIGN.md section 9).

  vf check <Cxx> quick|thorough [-n RUNS] [-j JOBS]
  vf replay <path>
  vf digest <Cxx> <tier> <batch_seed> <index>...     (used by the determinism self-check)
  vf one <Cxx> <tier> <batch_seed> <index> [-v]       (run one generated scenario, print its log)
  vf selftest determinism|refterm|pty
  vf mutants [<Cxx>]
"""

from __future__ import annotations

import importlib
import json
import os
import sys

import warnings

warnings.simplefilter("ignore")  # urwid's layout warnings (GridFlowWarning, PaddingWarning, ...) are not findings

HERE = os.path.dirname(os.path.abspath(__file__))
sys.path.insert(0, HERE)

from simkit import core  # noqa: E402

core.bootstrap_repo()

from simkit import runner  # noqa: E402

ENGINES = {
    "C04": "props.c04",
    "C05": "props.c05",
    "C06": "props.c06",
    "C07": "props.c07",
    "C08": "props.c08",
    "C10": "props.c10",
    "C12": "props.c12",
    "C13": "props.c13",
    "C14": "props.c14",
    "C15": "props.c15",
    "C20": "props.c20",
}


def get_engine(prop: str):
    mod = importlib.import_module(ENGINES[prop])
    return mod.ENGINE


def main(argv: list[str]) -> int:
    if not argv:
        print(__doc__)
        return 2
    cmd = argv[0]
    try:
        if cmd == "check":
            prop = argv[1]
            tier = argv[2] if len(argv) > 2 and not argv[2].startswith("-") else os.environ.get("VERIF_TIER", "quick")
            n = None
            jobs = int(os.environ.get("VERIF_JOBS", str(min(16, os.cpu_count() or 1))))
            rest = argv[2:]
            if "-n" in rest:
                n = int(rest[rest.index("-n") + 1])
            if "-j" in rest:
                jobs = int(rest[rest.index("-j") + 1])
            seed = int(os.environ.get("VERIF_SEED", "0"))
            return runner.check(get_engine(prop), tier, seed, jobs, n)
        if cmd == "replay":
            path = argv[1]
            with open(path) as f:
                prop = json.load(f)["property"]
            return runner.replay(get_engine(prop), path)
        if cmd == "digest":
            prop, tier, seed = argv[1], argv[2], int(argv[3])
            eng = get_engine(prop)
            for i in argv[4:]:
                scen = runner.make_scenario(eng, seed, int(i), tier)
                res = runner.safe_execute(eng, scen)
                print(f"DIGEST {i} {res.digest}")
            return 0
        if cmd == "one":
            prop, tier, seed, idx = argv[1], argv[2], int(argv[3]), int(argv[4])
            eng = get_engine(prop)
            scen = runner.make_scenario(eng, seed, idx, tier)
            print(json.dumps(scen, indent=1, sort_keys=True, default=str))
            os.environ["VERIF_KEEP_LOG"] = "1"
            res = runner.safe_execute(eng, scen)
            if "-v" in argv:
                for line in res.info.get("log", []):
                    print(line)
            print("digest", res.digest, "nontrivial", res.nontrivial, "probes", res.probes, "faults", res.faults)
            for v in res.violations:
                print(repr(v))
            return 1 if res.violations else 0
        if cmd == "selftest":
            from simkit import selftest  # noqa: PLC0415

            return selftest.main(argv[1:], get_engine, ENGINES)
        if cmd == "mutants":
            from simkit import mutants  # noqa: PLC0415

            return mutants.main(argv[1:])
    except core.HarnessError as e:
        print(f"HARNESS-ERROR: {e}")
        return 2
    print(__doc__)
    return 2


if __name__ == "__main__":
    sys.exit(main(sys.argv[1:]))
