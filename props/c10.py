"""C10 - the Edit widget behaves as a text editor model for any key sequence   (engine `widgets`)

Environment-decided dimension: Edit carries state that is set by RENDERING and RESIZING - the view
shift (set by the last focus render / cursor query) and the preferred column (valid for one
width) - so what a click or an up/down does depends on how input events, renders and width
changes were interleaved.  Renders and width changes are explicit steps of the history.

Oracle: a small reference editor (text, offset, preferred column); display-row geometry comes
from a fresh, never-rendered twin Edit through urwid's layout functions (text layout itself is
C03's business and is trusted here).
"""

from __future__ import annotations

import os
import random
import warnings

from simkit import core
from simkit.core import EventLog
from simkit.runner import Engine, Result

P = "C10"
KEYS = ["left", "right", "up", "down", "home", "end", "backspace", "delete", "enter", "tab", "f5", "ctrl x", "page up", "esc"]
# characters with the Unicode digit / decimal property that are not in any numeric editor's documented alphabet
NON_ASCII_DIGITS = ["²", "３", "٣", "①", "é"]
CHARS = list("ab Z9.-") + ["é", "日", "本", "́", "\t", "𐍈"]  # (U+10348: four bytes in UTF-8, one column)


def pos_inside_char(text: bytes, pos: int) -> bool:
    return 0 < pos < len(text) and text[pos] & 0xC0 == 0x80


def char_width(ch: str) -> int:
    import unicodedata  # noqa: PLC0415

    if unicodedata.combining(ch):
        return 0
    return 2 if unicodedata.east_asian_width(ch) in ("W", "F") else 1


class _Run:
    def __init__(self, scen: dict, res: Result) -> None:
        self.scen = scen
        self.res = res
        self.log = EventLog(keep=bool(os.environ.get("VERIF_KEEP_LOG")))
        self.tags: set[str] = set()

    def violate(self, clause, sig, msg=""):
        if self.tags:
            sig += " [" + ",".join(sorted(self.tags)) + "]"
        self.res.violate(P, clause, f"{sig} kind={self.kind}", msg)
        self.log.add("violation", f"{clause} {sig}")

    cur_caption = None  # the caption after the application's last set_caption() (None: the configured one)

    # ------------------------------------------------------------------------------------
    def make(self, text=None, pos=None):
        import urwid  # noqa: PLC0415
        from urwid import numedit  # noqa: PLC0415

        cfg = self.scen["config"]
        k = cfg["kind"]
        cap = cfg.get("caption", "") if self.cur_caption is None else self.cur_caption
        txt = cfg.get("text", "") if text is None else text
        if k == "edit":
            if cfg.get("bytes"):
                # a bytes caption and text (UTF-8): offsets count bytes and must never split a character
                cap = cap.encode("utf-8") if isinstance(cap, str) else cap
                txt = txt.encode("utf-8") if isinstance(txt, str) else txt
            kw = {}
            if cfg.get("ctor_pos") is not None and pos is None and text is None:
                # the initial cursor position given to the constructor (clamped to a character boundary in bytes mode)
                p0 = min(int(cfg["ctor_pos"]), len(txt))
                while isinstance(txt, bytes) and pos_inside_char(txt, p0):
                    p0 -= 1
                kw["edit_pos"] = p0
            e = urwid.Edit(cap, txt, multiline=cfg.get("multiline", False), align=cfg.get("align", "left"), wrap=cfg.get("wrap", "space"), allow_tab=cfg.get("allow_tab", False), mask=cfg.get("mask"), **kw)
        elif k == "int":
            e = urwid.IntEdit(cap, txt if txt else None)
        elif k == "integer":
            e = numedit.IntegerEdit(cap, txt if txt else None, base=cfg.get("base", 10), allow_negative=cfg.get("neg", False))
        else:
            kw = {}
            if cfg.get("sep"):
                # the decimal separator option, under its current name or the deprecated camelCase one
                kw = {"decimalSeparator": cfg["sep"]} if cfg.get("sep_old_name") else {"decimal_separator": cfg["sep"]}
            with warnings.catch_warnings():
                warnings.simplefilter("ignore", DeprecationWarning)
                e = numedit.FloatEdit(cap, txt if txt else None, allow_negative=cfg.get("neg", False), **kw)
        if pos is not None:
            e.set_edit_pos(pos)
        return e

    def twin(self, text: str, pos: int):
        """A fresh, never-rendered widget with the same geometry holding `text` (numeric variants lay their
        text out exactly like a plain Edit with the default options; their constructors validate and
        normalise the default value, so the twin is a plain Edit)."""
        if self.kind == "edit":
            return self.make(text=text, pos=pos)
        import urwid  # noqa: PLC0415

        tw = urwid.Edit(self.scen["config"].get("caption", "") if self.cur_caption is None else self.cur_caption, text)
        tw.set_edit_pos(pos)
        return tw

    def geometry(self, text: str, maxcol: int):
        """(full text, translation) of a fresh twin holding `text` (no view shift, no state)."""
        tw = self.twin(text, 0)
        full = tw.get_text()[0]
        return full, tw.get_line_translation(maxcol)

    # ---- numeric variants ------------------------------------------------------------------
    def num_valid(self, ch: str, text: str, pos: int, cfg) -> bool:
        """Documented alphabet of IntEdit / IntegerEdit / FloatEdit: decimal digits; digits of the base;
        digits and the decimal separator; one minus sign, only as the first character, when negative
        numbers are allowed, and nothing in front of it."""
        k = self.kind
        if k == "int":
            return ch in "0123456789"
        allowed = "0123456789ABCDEFGHIJKLMNOPQRSTUVWXYZ"[: cfg.get("base", 10)] if k == "integer" else "0123456789" + cfg.get("sep", ".")
        if ch.upper() in allowed:
            return not (pos == 0 and text[:1] == "-")
        return bool(cfg.get("neg")) and ch == "-" and pos == 0 and "-" not in text

    def num_trims(self, cfg) -> bool:
        return self.kind in ("int", "float") or cfg.get("base", 10) == 10

    @staticmethod
    def num_trim(text: str, pos: int) -> tuple[str, int]:
        """Leading zeros to the left of the cursor are removed; the cursor stays on its character."""
        while pos > 0 and text[:1] == "0":
            text, pos = text[1:], pos - 1
        return text, pos

    # ------------------------------------------------------------------------------------
    def setup(self, edit_factory=None) -> None:
        import urwid  # noqa: PLC0415
        from urwid import text_layout  # noqa: PLC0415
        from urwid.widget.constants import Align  # noqa: PLC0415

        scen, res = self.scen, self.res
        cfg = scen["config"]
        self.kind = cfg["kind"]
        urwid.util.set_encoding("utf-8")
        urwid.CanvasCache.clear()
        e = self.e = edit_factory() if edit_factory is not None else self.make()
        self.caplen = len(e.caption)
        self.maxcol = cfg["width"]
        # reference editor
        self.m_text = e.edit_text
        self.m_pos = e.edit_pos
        self.m_pref = None  # (col | "L" | "R", maxcol)
        self.model_on = True
        signals = self.signals = []
        self.sig_bad = None

        def look(w, when):
            # a listener may look at the widget: the offset is inside the text also while a modification is being signalled
            t, ps = w.edit_text, w.edit_pos
            # (only the range: a key's text change and its cursor move are two steps, and between them - where the
            # signals go out - the cursor still has its old, clipped value, which need not be a character boundary)
            if not 0 <= ps <= len(t):
                self.sig_bad = self.sig_bad or ("offset-outside-text", f"during '{when}': edit_pos={ps} but the text {t!r} has length {len(t)}")

        def on_change(w, new):
            signals.append(("change", new, w.edit_text))
            look(w, "change")

        def on_postchange(w, old):
            signals.append(("postchange", old, w.edit_text))
            look(w, "postchange")

        urwid.connect_signal(e, "change", on_change)
        urwid.connect_signal(e, "postchange", on_postchange)
        self.last_render = None  # (maxcol, focus, text, pos) of the last render with nothing since
        self.log.add("cfg", [repr(cfg)])

    def note_zero_width_text(self) -> None:
        e = self.e
        full_now = e.caption + e.edit_text
        if isinstance(full_now, bytes):
            full_now = full_now.decode("utf-8", "replace")
        if any(ch == "\u0301" and (j == 0 or full_now[j - 1] in "\n \u0301\t") for j, ch in enumerate(full_now)):
            # a display row may then consist of zero-width characters only: text layout (C03) emits
            # zero-width segments it rejects itself; recorded as a known finding
            self.tags.add("zero-width-char-not-attached-to-a-letter")

    def step(self, i, op: dict, perform=None) -> bool:  # noqa: C901, PLR0911, PLR0912, PLR0915
        """One operation: perform it on the real widget (directly, or through `perform` when the call is made by
        somebody else - MainLoop in a full-stack run - and merely observed), then compare with the reference
        editor.  Returns False when the history should stop (a violation was recorded)."""
        import urwid  # noqa: PLC0415
        from urwid import text_layout  # noqa: PLC0415
        from urwid.widget.constants import Align  # noqa: PLC0415

        res, e, cfg = self.res, self.e, self.scen["config"]
        signals = self.signals
        k = op["op"]
        del self.signals[:]
        before_text, before_pos = e.edit_text, e.edit_pos
        if isinstance(e.edit_text, bytes) and pos_inside_char(e.edit_text, e.edit_pos):
            self.violate("C10.2", "offset-inside-a-multi-byte-character", f"step {i}: text {e.edit_text!r} pos {e.edit_pos}")
            return False
        self.note_zero_width_text()
        try:
            if k == "key":
                key = op["key"]
                rv = perform() if perform is not None else e.keypress((self.maxcol,), key)
                self.log.add("key", [key, repr(rv), e.edit_text, e.edit_pos])
                if rv is not None and rv != key:
                    self.violate("C10.6", "keypress-returned-a-different-key", f"{key!r} -> {rv!r}")
                    return False
                if self.model_on:
                    exp = self.model_key(key, self.m_text, self.m_pos, self.m_pref, self.maxcol, cfg, text_layout, self.caplen, Align)
                    if exp is not None and self.kind != "edit" and exp[3] and self.num_trims(cfg):
                        t2, p2 = self.num_trim(exp[0], exp[1])
                        if t2 != exp[0]:
                            res.probe("leading_zeros_trimmed")
                            if exp[1] == len(exp[0]):
                                res.probe("leading_zeros_trimmed_with_cursor_at_end")
                            exp = (t2, p2, None, True)
                    if exp is not None:
                        m_text2, m_pos2, m_pref2, handled = exp
                        if (rv is None) != handled:
                            self.violate("C10.6", f"key-{'returned' if handled else 'swallowed'}:{self.key_class(key)}", f"step {i}: key {key!r} text {self.m_text!r} pos {self.m_pos}: urwid returned {rv!r}, editor model says handled={handled}")
                            return False
                        if (e.edit_text, e.edit_pos) != (m_text2, m_pos2):
                            self.violate("C10.1", f"text-or-offset-differs-from-editor-model after={self.key_class(key)} wrap={cfg.get('wrap')}", f"step {i}: key {key!r} width {self.maxcol} from ({self.m_text!r},{self.m_pos}) pref {self.m_pref}: urwid ({e.edit_text!r},{e.edit_pos}) model ({m_text2!r},{m_pos2})")
                            return False
                        self.m_text, self.m_pos, self.m_pref = m_text2, m_pos2, m_pref2
                    elif (e.edit_text, e.edit_pos) == (self.m_text, self.m_pos) and rv == key:
                        pass  # not used by the editor: nothing changes, the preferred column stays
                    else:
                        self.m_text, self.m_pos, self.m_pref = e.edit_text, e.edit_pos, None
                self.last_render = None
            elif k == "click":
                x, y = op["x"] % self.maxcol, op["y"]
                shown = self.last_render
                flag_stale = shown is not None and bool(e._shift_view_to_cursor) != bool(shown[1])  # noqa: SLF001
                rv = perform() if perform is not None else e.mouse_event((self.maxcol,), "mouse press", 1, x, y, True)
                self.log.add("click", [x, y, repr(rv), e.edit_pos])
                if e.edit_text != before_text:
                    self.violate("C10.4", "click-changed-the-text", f"step {i}")
                    return False
                if self.model_on and shown is not None and shown[0] == self.maxcol and shown[2] == before_text:
                    # what the user sees is the last render: the click must land on that character
                    tw = self.twin(shown[2], shown[3])
                    tw.render((self.maxcol,), shown[1])
                    trans = tw.get_line_translation(self.maxcol)
                    full = tw.get_text()[0]
                    top_y = text_layout.calc_coords(full, trans, self.caplen)[1]
                    if y < top_y:
                        # a row that holds caption only: urwid ignores the click
                        if rv or e.edit_pos != before_pos:
                            self.violate("C10.4", "click-on-caption-row-moved-the-cursor", f"step {i}: ({x},{y}) top row of the text {top_y}")
                            return False
                    elif y < len(trans):
                        want = min(max(text_layout.calc_pos(full, trans, x, y) - self.caplen, 0), len(before_text))
                        if not rv or e.edit_pos != want:
                            if flag_stale:
                                self.tags.add("view-shift-flag-differs-from-last-render")
                            self.violate("C10.4", f"click-put-cursor-on-another-character wrap={cfg.get('wrap')}", f"step {i}: click ({x},{y}) width {self.maxcol} on view rendered with focus={shown[1]} pos={shown[3]} text {before_text!r}: cursor at {e.edit_pos}, character under the click is at {want}")
                            return False
                        res.probe("click_checked_against_last_render")
                        if shown[1] is False or shown[3] != before_pos:
                            res.probe("click_with_stale_view_shift")
                    elif rv:
                        self.violate("C10.4", "click-outside-rows-accepted", f"step {i}: ({x},{y}) rows {len(trans)}")
                        return False
                if self.plain_grid(before_text):
                    # geometry written down without urwid's layout code: wrap='any' puts character k of an ASCII text at
                    # cell (k mod w, k div w), so a click on (x, y) inside the text rows lands on offset y*w + x
                    w_, ln = self.maxcol, len(before_text)
                    # (with the cursor at the end of a text that fills its last row urwid shifts that row to keep the
                    # cursor visible: left open, like the cursor cell in that state)
                    if y < max(1, -(-ln // w_)) and not (before_pos == ln and ln and ln % w_ == 0):
                        want = min(y * w_ + x, ln)
                        if not rv or e.edit_pos != want:
                            self.violate("C10.4", "click-put-cursor-on-another-character (grid model) wrap=any", f"step {i}: click ({x},{y}) width {w_} text {before_text!r}: cursor at {e.edit_pos}, expected {want}")
                            return False
                        res.probe("click_checked_against_grid_model")
                self.m_text, self.m_pos = e.edit_text, e.edit_pos
                self.m_pref = (x, self.maxcol) if rv else self.m_pref
                self.last_render = None
            elif k == "render":
                focus = bool(op.get("focus", True))
                canv = perform() if perform is not None else e.render((self.maxcol,), focus)
                # like a screen, keep the last canvas alive until the next one replaces it: later renders with the
                # same arguments are then answered from the canvas cache (which is what makes the view-shift flag go stale)
                self.held_canvas = canv
                self.log.add("render", [self.maxcol, focus, canv.rows(), repr(canv.cursor)])
                if focus:
                    cc = e.get_cursor_coords((self.maxcol,))
                    if canv.cursor != cc:
                        self.violate("C10.3", "render-cursor-differs-from-get_cursor_coords", f"step {i}: {canv.cursor} vs {cc}")
                        return False
                    if not self.check_cursor_cell(i, canv, e, self.maxcol, cfg):
                        return False
                    if self.plain_grid(e.edit_text):
                        w_, ln, ps = self.maxcol, len(e.edit_text), e.edit_pos
                        if not (ps == ln and ln and ln % w_ == 0):  # (end of a text that fills its last row: left open)
                            if tuple(canv.cursor) != (ps % w_, ps // w_):
                                self.violate("C10.3", "cursor-not-at-the-grid-cell-of-the-offset wrap=any", f"step {i}: width {w_} text {e.edit_text!r} pos {ps}: cursor {canv.cursor}, expected {(ps % w_, ps // w_)}")
                                return False
                            res.probe("cursor_checked_against_grid_model")
                elif canv.cursor is not None:
                    self.violate("C10.3", "cursor-drawn-without-focus", f"step {i}")
                    return False
                self.last_render = (self.maxcol, focus, e.edit_text, e.edit_pos)
                res.states.add(f"{self.kind}/{cfg.get('wrap')}/{focus}/{canv.rows() > 1}/{e.edit_pos == len(e.edit_text)}/{e.edit_pos == 0}")
            elif k == "width":
                self.maxcol = op["w"]
                self.log.add("width", self.maxcol)
                res.fault("width_change")
                self.last_render = None
            elif k == "set_text":
                new_text = op["text"].encode("utf-8") if cfg.get("bytes") else op["text"]
                e.set_edit_text(new_text)
                if isinstance(new_text, bytes) and pos_inside_char(e.edit_text, e.edit_pos):
                    # set_edit_text() keeps the old byte offset (clamped to the new length); where that is inside a
                    # character of the new text is the application's business (not a key or click): it re-positions
                    fix = e.edit_pos
                    while pos_inside_char(e.edit_text, fix):
                        fix -= 1
                    e.set_edit_pos(fix)
                    res.probe("bytes_mode_application_repositioned_after_set_text")
                self.m_text = new_text
                self.m_pos = min(self.m_pos, len(self.m_text)) if e.edit_pos == min(self.m_pos, len(self.m_text)) else e.edit_pos
                self.m_pos = e.edit_pos
                self.m_pref = None
                self.last_render = None
            elif k == "set_caption":
                # the application changes the caption: text and offset stay, the geometry moves
                cap = op["caption"]
                self.cur_caption = cap
                e.set_caption(cap.encode("utf-8") if cfg.get("bytes") else cap)
                self.caplen = len(e.caption)
                self.log.add("set_caption", cap)
                res.probe("caption_changed")
                if (e.edit_text, e.edit_pos) != (before_text, before_pos):
                    self.violate("C10.2", "set_caption-changed-text-or-offset", f"step {i}: {(before_text, before_pos)!r} -> {(e.edit_text, e.edit_pos)!r}")
                    return False
                self.m_pref = None if self.m_pref is None else self.m_pref
                self.last_render = None
            elif k == "set_pos":
                want_pos = op["pos"]
                if isinstance(before_text, bytes):
                    # the application passes offsets of character boundaries (set_edit_pos documents no adjustment)
                    want_pos = max(0, min(want_pos, len(before_text)))
                    while pos_inside_char(before_text, want_pos):
                        want_pos -= 1
                e.set_edit_pos(want_pos)
                self.m_pos = max(0, min(want_pos, len(before_text)))
                if e.edit_pos != self.m_pos:
                    self.violate("C10.2", "set_edit_pos-not-clamped-to-text", f"step {i}: {want_pos} -> {e.edit_pos}, text length {len(before_text)}")
                    return False
                self.m_pref = None
                self.last_render = None
        except Exception as ex:  # noqa: BLE001
            if core.raised_in_harness(ex):
                raise core.HarnessError(f"harness exception in op {op}: {core.format_exc(ex)}") from ex
            self.violate("C10.1", f"{k}-raised:{core.exc_signature(ex)}", f"step {i} {op} width {self.maxcol} text {before_text!r} pos {before_pos}: {core.format_exc(ex)}")
            return False
        if self.sig_bad is not None:
            self.violate("C10.2", f"{self.sig_bad[0]}-while-a-modification-is-signalled", f"step {i} {op}: {self.sig_bad[1]}")
            return False
        # clause 2: offset within the text, never inside a multi-byte character
        if not 0 <= e.edit_pos <= len(e.edit_text):
            self.violate("C10.2", "offset-outside-text", f"step {i}: pos {e.edit_pos} len {len(e.edit_text)}")
            return False
        if isinstance(e.edit_text, bytes):
            if pos_inside_char(e.edit_text, e.edit_pos):
                self.violate("C10.2", "offset-inside-a-multi-byte-character", f"step {i}: text {e.edit_text!r} pos {e.edit_pos}")
                return False
            self.res.probe("bytes_mode_step_checked")
        # clause 5: change before with the new text, postchange after with the old text
        if e.edit_text != before_text or self.signals:
            if not self.check_signals(i, self.signals, before_text, e.edit_text, k):
                return False
        # clause 7: numeric alphabets
        if self.kind != "edit" and not self.check_alphabet(i, e, cfg):
            return False
        return True

    # ---- full-stack run: bytes -> Screen -> MainLoop -> Filler(Edit) -> draw_screen -> RefTerm ----------
    def run_stack(self) -> str:  # noqa: C901, PLR0915
        """The same kind of history as timed external events.  MainLoop makes the calls (keypress / mouse_event per
        input batch, render at idle, a new width after SIGWINCH); hooks on the Edit instance hand every call to
        step(), so the reference editor follows exactly the call sequence a live program produced - including
        cache hits and the flags that renders and cursor queries leave behind."""
        import urwid  # noqa: PLC0415

        from simkit import appstack  # noqa: PLC0415

        scen, res = self.scen, self.res
        cfg = scen["config"]
        st = cfg["stack"]
        rows = st.get("rows", 6)
        width = cfg["width"]
        events = []
        t = 0.125
        for op in scen["ops"]:
            k = op["op"]
            t += float(op.get("dt", 0.25 if k == "render" else 0))
            if k == "key":
                hx = appstack.key_hex(op["key"])
                if hx and op["key"] != "esc":
                    events.append({"ev": "bytes", "t": t, "hex": hx})
            elif k == "click":
                x, y = op["x"] % width, op["y"] % rows
                events.append({"ev": "bytes", "t": t, "hex": appstack.mouse_hex(1, x, y) + appstack.mouse_hex(1, x, y, True)})
            elif k == "width":
                width = op["w"]
                events.append({"ev": "resize", "t": t, "cols": width, "rows": rows})
            elif k in ("set_text", "set_pos", "set_caption"):
                events.append({"ev": "app", "t": t, "op": op})
        self.active = True
        self.n_steps = 0

        def do_step(op, perform=None):
            self.n_steps += 1
            if not self.active:
                return perform() if perform is not None else None
            out = {}

            def wrapped():
                out["rv"] = perform()
                return out["rv"]

            if not self.step(f"call {self.n_steps}", op, wrapped if perform is not None else None):
                self.active = False
            return out.get("rv")

        def sync_width(w):
            if w != self.maxcol and self.active:
                do_step({"op": "width", "w": w})

        def factory():
            self.setup()
            e = self.e
            o_kp, o_me, o_render = e.keypress, e.mouse_event, e.render

            def keypress(size, key):
                sync_width(size[0])
                return do_step({"op": "key", "key": key}, lambda: o_kp(size, key))

            def mouse_event(size, event, button, col, row, focus):
                sync_width(size[0])
                if button == 1 and not 0 <= col < size[0] and self.active:
                    # the terminal is already wider than the application knows (SIGWINCH not yet processed): the cell lies
                    # outside the widget, no character is under it; not judged, the reference editor follows urwid
                    res.probe("stack_click_outside_widget_width")
                    rv = o_me(size, event, button, col, row, focus)
                    self.m_text, self.m_pos = e.edit_text, e.edit_pos
                    self.m_pref = (col, self.maxcol) if rv else self.m_pref
                    self.last_render = None
                    return rv
                if button == 1:  # Edit moves its cursor for ANY button-1 event (press, SGR release, drag)
                    return do_step({"op": "click", "x": col, "y": row}, lambda: o_me(size, event, button, col, row, focus))
                return o_me(size, event, button, col, row, focus)

            def render(size, focus=False):
                sync_width(size[0])
                if not self.active:
                    return o_render(size, focus)
                return do_step({"op": "render", "focus": focus}, lambda: o_render(size, focus))

            e.keypress, e.mouse_event, e.render = keypress, mouse_event, render
            return urwid.Filler(e, valign="top")

        def apply_app(op):
            do_step(op)

        def on_stable(stack):
            if not self.active or res.violations:
                return
            cols, nrows = stack.size()
            canv = getattr(self, "held_canvas", None)
            if canv is None or cols != self.maxcol or canv.cursor is None:
                return
            cx, cy = canv.cursor
            if cy >= nrows or canv.rows() > nrows:
                return  # the Filler clips an Edit taller than the screen
            got = stack.screen_cursor()
            if got != (cx, cy):
                self.violate("C10.3", "terminal-cursor-differs-from-edit-cursor-when-loop-waits", f"stable point {stack.stable_points} size {(cols, nrows)}: terminal {got}, Edit canvas cursor {(cx, cy)}, text {self.e.edit_text!r} pos {self.e.edit_pos}")
                self.active = False
                return
            res.probe("stack_cursor_checked_on_terminal")

        stack = appstack.AppStack({"size": [cfg["width"], rows], "loop": st.get("loop", "select"), "tiebreak": st.get("tiebreak", ())}, res, factory, apply_app, on_stable)
        digest = stack.run(events)
        how, exc = stack.outcome
        if how == "raised":
            if isinstance(exc, core.HarnessError):
                raise exc
            if core.raised_in_harness(exc):
                raise core.HarnessError(f"harness exception in full-stack run: {core.format_exc(exc)}") from exc
            if not res.violations:
                self.note_zero_width_text()
                self.violate("C10.1", f"full-stack-run-raised:{core.exc_signature(exc)}", core.format_exc(exc))
        elif how in ("livelock", "quiescent") and not res.violations:
            self.violate("C10.1", f"full-stack-run-{how}", str(exc))
        else:
            res.probe("stack_run_completed")
        self.log.add("stack-digest", digest)
        if self.log.keep:
            self.log.lines.extend(stack.log_lines)
        return self.log.digest()

    def run(self) -> str:
        import urwid  # noqa: PLC0415

        self.setup()
        for i, op in enumerate(self.scen["ops"]):
            if not self.step(i, op):
                break
        urwid.CanvasCache.clear()
        return self.log.digest()

    @staticmethod
    def key_class(key: str) -> str:
        return key if key in KEYS else "char"

    # ---- reference editor -------------------------------------------------------------------
    # ---- one character forwards / backwards: one code point of a str, one UTF-8 sequence of a bytes text --------
    @staticmethod
    def nxt(text, pos: int) -> int:
        if isinstance(text, str):
            return pos + 1
        p = pos + 1
        while p < len(text) and text[p] & 0xC0 == 0x80:
            p += 1
        return p

    @staticmethod
    def prv(text, pos: int) -> int:
        if isinstance(text, str):
            return pos - 1
        p = pos - 1
        while p > 0 and text[p] & 0xC0 == 0x80:
            p -= 1
        return p

    @staticmethod
    def enc(text, s: str):
        """`s` in the type of `text`."""
        return s if isinstance(text, str) else s.encode("utf-8")

    def model_key(self, key, text, pos, pref, maxcol, cfg, tl, caplen, Align):  # noqa: C901, PLR0911, PLR0912, N803
        """(text, pos, pref, handled) expected after `key`, or None when the model has no opinion."""
        multiline, allow_tab = cfg.get("multiline", False), cfg.get("allow_tab", False)
        if self.kind != "edit" and len(key) == 1 and ord(key) >= 32 and not self.num_valid(key, text, pos, cfg):
            return text, pos, pref, False
        if len(key) == 1 and ord(key) >= 32 or (len(key) == 1 and key == "́"):
            k = self.enc(text, key)
            return text[:pos] + k + text[pos:], pos + len(k), None, True
        if len(key) == 1:
            return None  # control characters: valid_char() decides, not specified
        if key == "tab":
            if not allow_tab:
                return text, pos, pref, False
            s = self.enc(text, " " * (8 - pos % 8))
            return text[:pos] + s + text[pos:], pos + len(s), None, True
        if key == "enter":
            if not multiline:
                return text, pos, pref, False
            return text[:pos] + self.enc(text, "\n") + text[pos:], pos + 1, None, True
        if key == "left":
            return (text, pos, pref, False) if pos == 0 else (text, self.prv(text, pos), None, True)
        if key == "right":
            return (text, pos, pref, False) if pos >= len(text) else (text, self.nxt(text, pos), None, True)
        if key == "backspace":
            return (text, pos, None, False) if pos == 0 else (text[: self.prv(text, pos)] + text[pos:], self.prv(text, pos), None, True)
        if key == "delete":
            return (text, pos, None, False) if pos >= len(text) else (text[:pos] + text[self.nxt(text, pos) :], pos, None, True)
        if key in ("up", "down", "home", "end"):
            full, trans = self.geometry(text, maxcol)
            # the real widget may show a shifted view of the cursor row (clip mode); the shift moves the
            # columns of that row only, so rows are the same: use urwid's own coordinates of the cursor
            tw = self.twin(text, pos)
            x, y = tw.get_cursor_coords((maxcol,))
            trans = tw.get_line_translation(maxcol)
            if key in ("home", "end"):
                col = Align.LEFT if key == "home" else Align.RIGHT
                newpos = min(max(tl.calc_pos(full, trans, col, y) - caplen, 0), len(text))
                return text, newpos, ("L" if key == "home" else "R", maxcol), True
            col = x
            if pref is not None and pref[1] == maxcol:
                col = Align.LEFT if pref[0] == "L" else Align.RIGHT if pref[0] == "R" else pref[0]
            y2 = y - 1 if key == "up" else y + 1
            top_y = tl.calc_coords(full, trans, caplen)[1]
            if y2 < top_y or y2 >= len(trans):
                return text, pos, pref, False
            newpos = min(max(tl.calc_pos(full, trans, col, y2) - caplen, 0), len(text))
            keep = pref if (pref is not None and pref[1] == maxcol) else (x, maxcol)
            return text, newpos, keep, True
        return text, pos, pref, False

    def plain_grid(self, text) -> bool:
        """The subset whose geometry needs no layout code: a str Edit without caption and mask, wrap='any', left
        aligned, printable ASCII text without line breaks, at least two columns."""
        cfg = self.scen["config"]
        return (
            cfg["kind"] == "edit"
            and isinstance(text, str)
            and not (cfg.get("caption") if self.cur_caption is None else self.cur_caption)
            and cfg.get("mask") is None
            and cfg.get("wrap") == "any"
            and cfg.get("align", "left") == "left"
            and self.maxcol >= 2
            and all(32 <= ord(ch) < 127 for ch in text)
        )

    # ------------------------------------------------------------------------------------
    def check_cursor_cell(self, i, canv, e, maxcol, cfg) -> bool:
        """Clause 3: the cursor is drawn in the cell of the character at the cursor offset."""
        cur = canv.cursor
        if cur is None:
            self.violate("C10.3", "no-cursor-on-focused-edit", f"step {i}")
            return False
        x, y = cur
        rows = [b"".join(t for _a, _cs, t in row).decode("utf-8", "replace") for row in canv.content()]
        if not (0 <= y < len(rows) and 0 <= x < maxcol):
            self.violate("C10.3", "cursor-outside-canvas", f"step {i}: {cur} in {maxcol}x{len(rows)}")
            return False
        # character displayed at column x of row y
        col = 0
        shown = " "
        for ch in rows[y]:
            w = char_width(ch)
            if w == 0:
                continue
            if col <= x < col + w:
                shown = ch
                break
            col += w
        pos, text = e.edit_pos, e.edit_text
        if isinstance(text, bytes):
            # the character that starts at the byte offset
            tail = text[pos : self.nxt(text, pos)].decode("utf-8", "replace") if pos < len(text) else ""
            text, pos = (tail or " "), 0
        want = text[pos] if pos < len(text) else " "
        if want in "\n\t" or (ord(want) < 32):
            return True
        if cfg.get("mask") and pos < len(text):
            want = cfg["mask"]
        if char_width(want) == 0:
            return True
        if shown != want:
            # at the right edge of a clipped / wrapped row the cursor may sit one past the last character
            if pos < len(text) and shown == " " and cfg.get("wrap") in ("clip", "ellipsis"):
                self.res.probe("cursor_past_clipped_row")
                return True
            self.violate("C10.3", f"cursor-not-on-the-character-at-the-offset wrap={cfg.get('wrap')} align={cfg.get('align')}", f"step {i}: width {maxcol} text {text!r} pos {pos}: cursor {cur} shows {shown!r}, character at offset is {want!r}; rows {rows!r}")
            return False
        self.res.probe("cursor_cell_checked")
        return True

    def check_signals(self, i, signals, old, new, op) -> bool:
        if old == new and not signals:
            return True
        # numeric variants may modify twice (insert, then trim leading zeros): check every pair
        if len(signals) % 2:
            self.violate("C10.5", "change-and-postchange-not-paired", f"step {i}: {signals!r}")
            return False
        cur = old
        for j in range(0, len(signals), 2):
            a, b = signals[j], signals[j + 1]
            if a[0] != "change" or b[0] != "postchange":
                self.violate("C10.5", "signals-out-of-order", f"step {i}: {signals!r}")
                return False
            if a[2] != cur:
                self.violate("C10.5", "change-signalled-after-the-text-was-replaced", f"step {i}: edit_text during 'change' was {a[2]!r}, old text {cur!r}")
                return False
            if b[1] != cur or b[2] != a[1]:
                self.violate("C10.5", "postchange-with-wrong-text", f"step {i}: postchange arg {b[1]!r} (old {cur!r}), edit_text during postchange {b[2]!r} (new {a[1]!r})")
                return False
            cur = a[1]
        if cur != new:
            self.violate("C10.5", "modification-without-signals", f"step {i} ({op}): text {old!r} -> {new!r}, signalled up to {cur!r}")
            return False
        self.res.probe("signals_checked")
        return True

    def check_alphabet(self, i, e, cfg) -> bool:
        t = e.edit_text
        k = self.kind
        allowed = "0123456789"
        if k == "integer" and cfg.get("base", 10) == 16:
            allowed = "0123456789ABCDEFabcdef"
        if k == "float":
            allowed += cfg.get("sep", ".")
        body = t
        if cfg.get("neg") and k in ("integer", "float") and t.startswith("-"):
            body = t[1:]
        bad = [c for c in body if c not in allowed]
        if bad:
            self.violate("C10.7", f"character-outside-alphabet:{'minus-not-leading' if '-' in bad else 'other'}", f"step {i}: text {t!r}")
            return False
        return True


class EditEngine(Engine):
    prop = P
    name = "widgets-edit"
    level = "exploration"
    tiers = {"quick": 80000, "thorough": 4000000}
    rule = (
        "seeded histories (1-40 steps) on Edit (caption/text from ASCII, accented, double-width and combining characters and "
        "newlines; width 1-20; wrap space/any/clip; align; multiline; allow_tab; mask) and on IntEdit/IntegerEdit/FloatEdit: "
        "printable characters, left/right/up/down/home/end, backspace, delete, enter, tab, unknown keys, button-1 clicks at any "
        "cell, render with and without focus, width changes, set_edit_text, set_edit_pos. Renders and width changes are explicit "
        "steps (view shift and preferred column are state set by them). Non-trivial: >= 1 render or width change between two "
        "input events; distinct = distinct event-log digests among those."
    )
    assumptions = [
        "display-row geometry (which offset is at which cell) comes from urwid's text layout on a fresh twin Edit: layout itself is trusted (C03)",
        "a click is checked against the last rendering only when nothing changed between that render and the click",
        "a fifth of the Edit histories use a bytes caption and text (UTF-8): offsets count bytes, one character = one UTF-8 sequence, the offset must never fall inside one; otherwise one code point = one character",
        "numeric variants follow the same editor model restricted to their documented alphabet; after a handled key, leading zeros left of the cursor are removed and the cursor stays on its character (IntEdit, FloatEdit, IntegerEdit base 10)",
    ]
    components = {"real": ["Edit, IntEdit, IntegerEdit, FloatEdit, signals, text_layout (trusted for geometry)"], "stub": [], "driven": ["render / width-change placement between input events"]}
    required_probes = ("cursor_cell_checked", "signals_checked", "click_checked_against_last_render", "click_with_stale_view_shift", "leading_zeros_trimmed_with_cursor_at_end", "bytes_mode_step_checked")
    reducible = ("ops",)
    _wide = False
    _comb = False

    def gen_text(self, rng: random.Random, n: int, newlines: bool) -> str:
        out = ""
        for _ in range(n):
            q = rng.random()
            if q < 0.6:
                out += rng.choice("abcdefg hij")
            elif q < 0.7 and self._wide:
                out += rng.choice("日本語")
            elif q < 0.75 and out and out[-1] not in "\n ":
                out += "́"
            elif q < 0.85 and newlines:
                out += "\n"
            else:
                out += rng.choice("éüZ9")
        return out

    def generate(self, rng: random.Random, tier: str) -> dict:
        r = rng.random()
        if r < 0.8:
            # a double-width character cannot be laid out in one column (text layout gives up with a
            # blank row: C03's business): runs that use such characters keep every width >= 2
            self._wide = rng.random() < 0.5
            # typing a bare combining character can hit a known finding of the text layout: some runs only
            self._comb = rng.random() < 0.2
            cfg = {
                "kind": "edit",
                "wide": self._wide,
                "caption": rng.choice(["", "", "c:", "cap \n", "日:" if self._wide else "d:"]),
                "text": self.gen_text(rng, rng.choice([0, 1, 3, 8, 20, 30]), True),
                "multiline": rng.random() < 0.5,
                "allow_tab": rng.random() < 0.3,
                "wrap": rng.choice(["space", "space", "any", "clip"]),
                "align": rng.choice(["left", "left", "center", "right"]),
                "mask": rng.choice([None, None, None, "*"]),
                "width": rng.choice([2, 3, 5, 8, 12, 20] if self._wide else [1, 2, 3, 5, 8, 12, 20]),
            }
            if rng.random() < 0.2:
                cfg["bytes"] = True
                cfg["mask"] = None
            if rng.random() < 0.25:
                cfg["ctor_pos"] = rng.choice([0, 1, 2, 5, 99])
        else:
            self._wide = False
            kind = rng.choice(["int", "integer", "float"])
            cfg = {"kind": kind, "caption": rng.choice(["", "n:"]), "text": rng.choice(["", "0", "42", "5002", "007"]), "neg": rng.random() < 0.6, "base": rng.choice([10, 10, 16]) if kind == "integer" else 10, "width": rng.choice([2, 5, 10])}
            if kind == "float":
                cfg["text"] = rng.choice(["", "3.14", "0.5", "10"])
                if rng.random() < 0.5:
                    cfg["sep"] = rng.choice([",", ",", "."])
                    cfg["sep_old_name"] = rng.random() < 0.5
                    if cfg["sep"] == ",":
                        cfg["text"] = rng.choice(["", "10", "42"])  # (the default value is always written with a point)
        ops = []
        for _ in range(rng.randint(1, 40)):
            q = rng.random()
            if q < 0.28:
                ch = rng.choice([c for c in CHARS if (self._wide or c not in "日本") and (self._comb or c != "\u0301")]) if cfg["kind"] == "edit" else rng.choice([*"0123456789-.,aF x", *NON_ASCII_DIGITS])
                ops.append({"op": "key", "key": ch})
            elif q < 0.62:
                ops.append({"op": "key", "key": rng.choice(KEYS)})
            elif q < 0.72:
                if rng.random() < 0.6:
                    ops.append({"op": "render", "focus": rng.random() < 0.7})  # the click lands on what was just drawn
                ops.append({"op": "click", "x": rng.randrange(20), "y": rng.randrange(6)})
            elif q < 0.86:
                ops.append({"op": "render", "focus": rng.random() < 0.75})
            elif q < 0.92:
                ops.append({"op": "width", "w": rng.choice([2, 3, 5, 8, 12, 20] if self._wide else [1, 2, 3, 5, 8, 12, 20])})
            elif q < 0.955 and cfg["kind"] == "edit":
                ops.append({"op": "set_text", "text": self.gen_text(rng, rng.choice([0, 2, 10]), True)})
            elif q < 0.97 and cfg["kind"] == "edit":
                ops.append({"op": "set_caption", "caption": rng.choice(["", "c:", "cap \n", "longer caption ", "日:" if self._wide else "d:"])})
            else:
                ops.append({"op": "set_pos", "pos": rng.choice([0, 1, 3, 7, 100])})
        ops.append({"op": "render", "focus": True})
        if rng.random() < 0.1 and cfg["width"] >= 2:
            # full stack: the same history as timed external events; dt = 0 batches an event with its predecessor
            cfg["stack"] = {"loop": rng.choice(["select", "select", "select", "asyncio", "zmq", "tornado", "twisted", "trio"]), "tiebreak": [rng.randrange(4) for _ in range(8)], "rows": rng.choice([3, 6, 12])}
            for op in ops:
                op["dt"] = 0.25 if op["op"] == "render" else rng.choice([0, 0, 0, 1 / 1024, 0.0625, 0.25])
        return {"config": cfg, "ops": ops}

    def execute(self, scen: dict) -> Result:
        res = Result()
        run = _Run(scen, res)
        res.digest = run.run_stack() if scen["config"].get("stack") else run.run()
        kinds = [o["op"] for o in scen["ops"]]
        for a, b, c in zip(kinds, kinds[1:], kinds[2:]):
            if a in ("key", "click") and b in ("render", "width") and c in ("key", "click"):
                res.nontrivial = True
                break
        if run.log.keep:
            res.info["log"] = run.log.lines
        return res

    def simplify(self, scen: dict):
        cfg = scen["config"]
        for fld, val in (("caption", ""), ("mask", None), ("align", "left"), ("allow_tab", False), ("multiline", False)):
            if cfg.get(fld) not in (val, None) or (fld == "caption" and cfg.get(fld)):
                yield dict(scen, config=dict(cfg, **{fld: val}))
        t = cfg.get("text", "")
        if len(t) > 1:
            yield dict(scen, config=dict(cfg, text=t[: len(t) // 2]))
            yield dict(scen, config=dict(cfg, text=t[len(t) // 2 :]))
            yield dict(scen, config=dict(cfg, text=t[:-1]))


ENGINE = EditEngine()
