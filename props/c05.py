"""C05 - terminal input decodes to the same events however it is fragmented   (engine `input`)

The real posix Screen reads from a fake tty whose input arrives in scheduled fragments; the
environment decides where the byte stream is cut, how much time passes between fragments
(relative to complete_wait), whether a timer and an arrival that fall on the same instant are
served timer-first or data-first, how much a read() returns, and which event loop runs it.

For every sampled stream the check ENUMERATES every single cut point x {remainder arrives
before the completion timeout, timeout fires first} and adds sampled multi-cut schedules
(fault enumeration per stream).  Oracle clauses: DESIGN.md section 5, C05.
"""

from __future__ import annotations

import contextlib
import io
import random
import signal

from simkit import core, loops
from simkit import world as W
from simkit.core import BlockedForever, Livelock, Quiescent
from simkit.runner import Engine, Result

P = "C05"
CW = 0.125  # complete_wait (exact binary fraction)
TICK = 1 / 1024
GAPS = [0.0, TICK, CW - TICK, CW, CW + TICK, 1.0]
ENCODINGS = {"utf8": "utf-8", "wide": "euc-jp", "narrow": "iso8859-1"}
WIDE_NAMES = ["euc-jp", "big5", "gbk", "uhc", "euc-kr", "gb2312"]


# ---------------------------------------------------------------------------------------------
# token grammar (bytes + implementation-independent expectation where one exists)


def _mods(b: int) -> str:
    return ("shift " if b & 4 else "") + ("meta " if b & 8 else "") + ("ctrl " if b & 16 else "")


def tok_x10(rng: random.Random) -> dict:
    b = rng.choice([0, 1, 2, 3]) | rng.choice([0, 4, 8, 16, 28, 12]) | rng.choice([0, 0, 32]) | rng.choice([0, 0, 64])
    x, y = rng.choice([0, 1, 5, 94, 95, 127, 222, 223, 255, rng.randrange(256)]), rng.randrange(256)
    data = b"\x1b[M" + bytes([32 + b, (x + 33) % 256, (y + 33) % 256])
    button = (3 if b & 64 else 0) + (b & 3) + 1
    if b & 3 == 3:
        action, button = "release", 0
    elif b & 32:
        action = "drag"
    else:
        action = "press"
    return {"k": "x10", "hex": data.hex(), "exp": [f"{_mods(b)}mouse {action}", button, x, y]}


def tok_sgr(rng: random.Random) -> dict:
    b = rng.choice([0, 1, 2]) | rng.choice([0, 4, 8, 16, 28]) | rng.choice([0, 0, 32]) | rng.choice([0, 0, 64])
    x, y = rng.choice([1, 2, 9, 10, 99, 100, 223, 1000, 9999]), rng.choice([1, 3, 10, 24, 100, 500])
    fin = rng.choice("Mm")
    data = f"\x1b[<{b};{x};{y}{fin}".encode()
    button = (3 if b & 64 else 0) + (b & 3) + 1
    if fin == "M":
        action = "drag" if b & 32 else "press"
    else:
        action = "release"
    return {"k": "sgr", "hex": data.hex(), "exp": [f"{_mods(b)}mouse {action}", button, x - 1, y - 1]}


def tok_cpr(rng: random.Random) -> dict:
    while True:
        r, c = rng.choice([1, 2, 3, 9, 10, 24, 25, 100]), rng.choice([1, 2, 8, 9, 10, 80, 132, 200])
        if not (r == 1 and 1 <= c <= 8):  # ESC [ 1 ; n R is also "modified F3" in the key table
            break
    return {"k": "cpr", "hex": f"\x1b[{r};{c}R".encode().hex(), "exp": ["cursor position", c - 1, r - 1]}


_TABLE = None


def table():
    global _TABLE  # noqa: PLW0603
    if _TABLE is None:
        from urwid.display import escape  # noqa: PLC0415

        _TABLE = [(s, n) for s, n in escape.input_sequences if n not in {"mouse", "sgrmouse"}]
    return _TABLE


_GOLDEN = None


def golden() -> list:
    """Key sequences and their documented names written down from the terminals' own conventions (xterm ctlseqs:
    CSI / SS3 cursor and function keys, CSI n ~ editing and function keys, CSI 1 ; m X and CSI n ; m ~ with
    m = 1 + shift(1) + meta(2) + ctrl(4); linux console CSI [ A..E; old-style CSI m X) and urwid's documented key names
    ("shift meta ctrl up", "page down", "f12", ...) - NOT read from urwid.display.escape, so that an entry of the
    table that is wrong is seen.  Sequences whose name urwid's manual leaves open (rxvt's $ ^ forms, keypad) are not
    listed here; the table token covers them against the table itself."""
    global _GOLDEN  # noqa: PLW0603
    if _GOLDEN is not None:
        return _GOLDEN
    g = {}
    arrows = {"A": "up", "B": "down", "C": "right", "D": "left", "H": "home", "F": "end"}
    tilde = {1: "home", 2: "insert", 3: "delete", 4: "end", 5: "page up", 6: "page down", 7: "home", 8: "end",
             11: "f1", 12: "f2", 13: "f3", 14: "f4", 15: "f5", 17: "f6", 18: "f7", 19: "f8", 20: "f9", 21: "f10", 23: "f11", 24: "f12",
             25: "f13", 26: "f14", 28: "f15", 29: "f16", 31: "f17", 32: "f18", 33: "f19", 34: "f20"}  # fmt: skip
    for c, n in arrows.items():
        g["[" + c] = n
        g["O" + c] = n
    for n, name in tilde.items():
        g[f"[{n}~"] = name
    for i, c in enumerate("PQRS"):
        g["O" + c] = f"f{i + 1}"
    for i, c in enumerate("ABCDE"):
        g["[[" + c] = f"f{i + 1}"
    for m in range(2, 9):
        pre = ("shift " if (m - 1) & 1 else "") + ("meta " if (m - 1) & 2 else "") + ("ctrl " if (m - 1) & 4 else "")
        for c, n in arrows.items():
            g[f"[1;{m}{c}"] = pre + n
            g[f"[{m}{c}"] = pre + n
        for n, name in tilde.items():
            if n not in (1, 2, 4, 7, 8):
                g[f"[{n};{m}~"] = pre + name
        for i, c in enumerate("PQRS"):
            g[f"[1;{m}{c}"] = pre + f"f{i + 1}"
    g["[Z"] = "shift tab"
    _GOLDEN = sorted(g.items())
    return _GOLDEN


def tok_table(rng: random.Random) -> dict:
    if rng.random() < 0.5:
        s, name = rng.choice(golden())
        return {"k": "golden", "hex": ("\x1b" + s).encode("latin-1").hex(), "exp": name}
    s, name = rng.choice(table())
    return {"k": "table", "hex": ("\x1b" + s).encode("latin-1").hex(), "exp": name}


def tok_ascii(rng: random.Random) -> dict:
    c = rng.randrange(32, 127)
    return {"k": "ascii", "hex": bytes([c]).hex(), "exp": chr(c)}


def tok_ctrl(rng: random.Random) -> dict:
    c = rng.choice([0, 1, 2, 3, 8, 9, 10, 13, 17, 19, 26, 28, 29, 30, 31, 127])
    named = {8: "backspace", 9: "tab", 10: "enter", 13: "enter", 127: "backspace"}
    if c in named:
        exp = named[c]
    elif 0 < c < 27:
        exp = "ctrl " + chr(ord("a") + c - 1)
    elif 27 < c < 32:
        exp = "ctrl " + chr(ord("A") + c - 1)
    else:
        exp = f"<{c}>"
    return {"k": "ctrl", "hex": bytes([c]).hex(), "exp": exp}


def tok_meta(rng: random.Random) -> dict:
    c = rng.choice([x for x in range(33, 127) if chr(x) not in "[O"])
    return {"k": "meta", "hex": bytes([27, c]).hex(), "exp": "meta " + chr(c)}


def tok_utf8(rng: random.Random) -> dict:
    cp = rng.choice(
        [rng.randrange(0x80, 0x800), rng.randrange(0x800, 0xD800), rng.randrange(0xE000, 0x10000), rng.randrange(0x10000, 0x110000)]
    )
    return {"k": "utf8", "hex": chr(cp).encode("utf-8").hex(), "exp": chr(cp)}


def tok_utf8_truncated(rng: random.Random) -> dict:
    """A 2-4 byte character cut short (lead byte plus 0-2 valid continuation bytes) that is never completed:
    'decoded as it stands' means every byte is reported on its own, none is dropped."""
    cp = rng.choice([rng.randrange(0x80, 0x800), rng.randrange(0x800, 0xD800), rng.randrange(0xE000, 0x10000), rng.randrange(0x10000, 0x110000), rng.randrange(0x10000, 0x110000)])
    data = chr(cp).encode("utf-8")
    data = data[: rng.randrange(1, len(data))]
    return {"k": "utf8trunc", "hex": data.hex(), "exp": f"<{data[0]}>", "exps": [f"<{b}>" for b in data]}


def tok_high_narrow(rng: random.Random) -> dict:
    c = rng.randrange(128, 256)
    return {"k": "high", "hex": bytes([c]).hex(), "exp": chr(c)}


def tok_stray_utf8(rng: random.Random) -> dict:
    c = rng.choice([*range(0x80, 0xC0, 7), 0xF8, 0xFC, 0xFE, 0xFF])
    return {"k": "stray", "hex": bytes([c]).hex(), "exp": f"<{c}>"}


def tok_dbcs(rng: random.Random) -> dict:
    """A double-byte character: EUC style (both bytes >= 0xA1) or Big5/GBK/UHC style, whose lead byte is 0x81..0xFE and whose
    trail byte may lie in the ASCII range 0x40..0x7E (documented name: the two bytes as a two-character string)."""
    r = rng.random()
    if r < 0.5:
        a, b = rng.randrange(0xA1, 0xFF), rng.randrange(0xA1, 0xFF)
    elif r < 0.85:
        a, b = rng.randrange(0x81, 0xFF), rng.choice([0x40, 0x41, 0x5B, 0x5C, 0x7E, rng.randrange(0x40, 0x7F)])
    else:
        a, b = rng.randrange(0x81, 0xFF), rng.randrange(0x80, 0xA1)
    return {"k": "dbcs", "hex": bytes([a, b]).hex(), "exp": chr(a) + chr(b)}


def tok_malformed(rng: random.Random, enc: str) -> dict:
    r = rng.random()
    if r < 0.3:  # truncated prefix of a well-formed token
        t = rng.choice([tok_x10, tok_sgr, tok_cpr, tok_table, tok_table])(rng)
        data = bytes.fromhex(t["hex"])
        data = data[: rng.randrange(1, len(data))]
    elif r < 0.6:  # SGR mouse with missing / extra / non-numeric fields
        body = rng.choice(["", "1", "1;2", "1;2;3;4", "a;b;c", ";;", "1;;3", "-1;2;3", "1;2;x", " 1;2;3", "0;0;0", "99999999999999999999;1;1"])
        data = f"\x1b[<{body}{rng.choice('MmMx')}".encode()
    elif r < 0.8 and enc == "utf8":  # invalid / overlong / truncated utf-8
        data = rng.choice([b"\xc0\x80", b"\xe0\x80\x80", b"\xc3", b"\xe2\x82", b"\xf0\x9f\x98", b"\xed\xa0\x80", b"\xf4\x90\x80\x80", b"\xc3\x28", b"\xe2\x28\xa1"])
    else:
        data = bytes(rng.randrange(256) for _ in range(rng.randint(1, 4)))
    return {"k": "malformed", "hex": data.hex(), "exp": None}


def gen_tokens(rng: random.Random, enc: str) -> list[dict]:
    n = rng.choice([1, 1, 2, 2, 3, 3, 4, 5])
    clean = rng.random() < 0.6
    toks = []
    for _ in range(n):
        r = rng.random()
        if not clean and r < 0.3:
            toks.append(tok_malformed(rng, enc))
        elif r < 0.45:
            toks.append(tok_table(rng))
        elif r < 0.55:
            toks.append(tok_x10(rng))
        elif r < 0.65:
            toks.append(tok_sgr(rng))
        elif r < 0.70:
            toks.append(tok_cpr(rng))
        elif r < 0.78:
            toks.append(tok_ascii(rng))
        elif r < 0.83:
            toks.append(tok_ctrl(rng))
        elif r < 0.88:
            toks.append(tok_meta(rng))
        elif enc == "utf8":
            toks.append(tok_utf8(rng) if rng.random() < 0.8 else tok_stray_utf8(rng))
        elif enc == "wide":
            toks.append(tok_dbcs(rng))
        else:
            toks.append(tok_high_narrow(rng))
    if enc == "utf8" and rng.random() < 0.12:
        # only at the end of the stream (or before a bare ESC): nothing that follows can complete the character
        toks.append(tok_utf8_truncated(rng))
    if rng.random() < 0.12:
        toks.append({"k": "esc", "hex": "1b", "exp": "esc"})
    return toks


# ---------------------------------------------------------------------------------------------


def norm_event(e):
    return list(e) if isinstance(e, tuple) else e


def ref_decode(codes: list[int]) -> list:
    """What parse_input reports for a group delivered whole and then flushed by the timeout."""
    from urwid.display import escape  # noqa: PLC0415

    out = []
    try:
        while codes:
            run, codes = escape.process_keyqueue(codes, True)
            out.extend(run)
    except escape.MoreInputRequired:
        while codes:
            run, codes = escape.process_keyqueue(codes, False)
            out.extend(run)
    return [norm_event(e) for e in out]


class _Sched:
    """One execution: one stream under one fragmentation schedule."""

    def __init__(self, res: Result, enc: str, tokens: list[dict], sch: dict, log_sink: list | None, enc_name: str | None = None) -> None:
        self.res = res
        self.enc = enc
        self.enc_name = enc_name or ENCODINGS[enc]
        self.tokens = tokens
        self.cw = float(sch.get("cw", CW))
        self.stream = b"".join(bytes.fromhex(t["hex"]) for t in tokens)
        self.sch = sch
        self.log_sink = log_sink
        self.kind = sch.get("loop", "select")
        self.mode = sch.get("mode", "loop")

    def violate(self, clause, sig, msg=""):
        self.res.violate(P, clause, sig, msg)
        self.world.log.add("violation", f"{clause} {sig}")

    def run(self) -> str:  # noqa: C901, PLR0912, PLR0915
        import urwid  # noqa: PLC0415
        from urwid.display import _posix_raw_display as prd  # noqa: PLC0415

        res = self.res
        sch = self.sch
        w = self.world = W.World(tiebreak=sch.get("tiebreak", ()))
        W.activate(w)
        box = None
        old_winch = signal.getsignal(signal.SIGWINCH)
        urwid.util.set_encoding(self.enc_name)
        try:
            tty = W.SimTTY(w, "tty", 80, 24)
            tty.read_caps = list(sch.get("read_caps", []))
            out = W.SimTTYOut(w, tty)
            screen = prd.Screen(input=W.SimTTYIn(tty), output=out)
            # (the application may also have asked for polling reads - max_wait - which bounds one get_input() call and
            # has nothing to do with how long the rest of a sequence is waited for)
            mw = [None, 0, TICK][sum(sch.get("cuts", [])) % 3] if self.mode == "loop" else None  # (the synchronous driver sets its own below)
            screen.set_input_timeouts(max_wait=mw, complete_wait=self.cw)
            if mw is not None:
                res.probe("max_wait_set_beside_complete_wait")
            # fragments
            stream = self.stream
            cuts = sorted({c for c in sch.get("cuts", []) if 0 < c < len(stream)})
            gaps = list(sch.get("gaps", []))
            bounds = [0, *cuts, len(stream)]
            arrivals: list[float] = []  # virtual times at which a fragment reached the tty
            t = 0.25
            last_t = t
            for i in range(len(bounds) - 1):
                if i > 0:
                    t += gaps[i - 1] if i - 1 < len(gaps) else 0.0
                frag = stream[bounds[i] : bounds[i + 1]]
                w.schedule(t, f"tty<{frag.hex()}", lambda frag=frag: (arrivals.append(w.rel()), tty.feed(frag)))
                last_t = t
            for wt in sch.get("winch", []):
                w.schedule(0.25 + float(wt), "sigwinch", lambda: signal.getsignal(signal.SIGWINCH)(signal.SIGWINCH, None))
                res.fault("sigwinch_between_fragments")
            # every wake-up that finds the sequence still incomplete (a window resize does that) re-arms the completion
            # timer: the bound is complete_wait after the last wake-up, so one extra period per scheduled resize
            t_end = last_t + self.cw * (1 + len(sch.get("winch", []))) + 0.5
            w.log.add("cfg", [self.enc, self.kind, self.mode, stream.hex(), cuts, gaps])

            events: list = []
            raws: list[int] = []
            flush_bounds: list[int] = []  # stream offsets after which a timeout flush ran
            delivered = [0]
            orig_parse = screen.parse_input

            def parse_input(event_loop, callback, codes, wait_for_more=True):
                if not wait_for_more:
                    # a timeout flush of the pending bytes
                    flush_bounds.append(delivered[0] + len(codes))
                    w.log.add("flush", [len(codes)])
                    earlier = [a for a in arrivals if a < w.rel()]  # (a fragment arriving at this very instant may not have been read yet)
                    if self.mode == "loop" and earlier and codes and w.rel() - earlier[-1] < self.cw - TICK / 2:
                        # the pending bytes are given up although the last byte arrived less than complete_wait ago
                        self.violate("C05.3", f"pending-sequence-flushed-before-complete_wait loop={self.kind}", f"stream {stream.hex()} cuts {cuts} gaps {gaps}: flush at {w.rel()}, last earlier arrival at {earlier[-1]}, complete_wait {self.cw}")
                    res.fault("timeout_flush_with_pending_bytes")
                if callback is None:
                    keys, raw = orig_parse(event_loop, None, codes, wait_for_more)
                    delivered[0] += len(raw)
                    return keys, raw
                if not getattr(callback, "counted", False):
                    inner = callback

                    def callback(keys, raw):
                        delivered[0] += len(raw)
                        return inner(keys, raw)

                    callback.counted = True
                return orig_parse(event_loop, callback, codes, wait_for_more)

            screen.parse_input = parse_input

            def on_input(keys, raw):
                w.log.add("input", [repr(keys), len(raw)])
                events.extend(norm_event(k) for k in keys)
                raws.extend(raw)

            exc = None
            screen.start()
            try:
                if self.mode == "loop":
                    box = loops.make_loop(self.kind, w)
                    lp = box.loop
                    screen.hook_event_loop(lp, on_input)

                    def final():
                        raise urwid.ExitMainLoop

                    lp.alarm(t_end, final)
                    try:
                        if self.kind == "twisted":
                            with contextlib.redirect_stdout(io.StringIO()):
                                lp.run()
                        else:
                            lp.run()
                    except BlockedForever as e:
                        self.violate("C05.1", f"read-blocks-for-ever loop={self.kind}", str(e))
                    except Quiescent:
                        self.violate("C05.1", f"loop-went-quiescent loop={self.kind}", "")
                    except Livelock as e:
                        self.violate("C05.1", f"livelock loop={self.kind}", str(e))
                    except Exception as e:  # noqa: BLE001
                        exc = e
                    screen.unhook_event_loop(lp)
                else:
                    # synchronous path: Screen.get_input() with max_wait
                    screen.set_input_timeouts(max_wait=0.25, complete_wait=self.cw)
                    try:
                        n_calls = 0
                        while w.rel() < t_end and n_calls < 200:
                            n_calls += 1
                            keys, raw = screen.get_input(raw_keys=True)
                            on_input(keys, raw)
                    except BlockedForever as e:
                        self.violate("C05.1", "read-blocks-for-ever mode=sync", str(e))
                    except Quiescent:
                        pass
                    except Livelock as e:
                        self.violate("C05.1", "livelock mode=sync", str(e))
                    except Exception as e:  # noqa: BLE001
                        exc = e
            finally:
                try:
                    screen.stop()
                except Exception as e:  # noqa: BLE001
                    if exc is None:
                        exc = e
            if exc is not None:
                if core.raised_in_harness(exc):
                    raise core.HarnessError(f"harness exception: {core.format_exc(exc)}") from exc
                self.violate("C05.1", f"decoder-raised:{core.exc_signature(exc)}", core.format_exc(exc))
            else:
                self.check(events, raws, flush_bounds, screen)
            res.sim_time += w.rel()
            for k, v in w.faults.items():
                res.fault(k, v)
            for k, v in w.probes.items():
                res.probe(k, v)
        finally:
            if box is not None:
                box.cleanup()
            W.deactivate()
            loops.restore_asyncio_state()
            urwid.util.set_encoding("utf-8")
            if signal.getsignal(signal.SIGWINCH) is not old_winch:
                signal.signal(signal.SIGWINCH, old_winch)
        if self.log_sink is not None:
            self.log_sink.extend(w.log.lines)
        return w.log.digest()

    def check(self, events, raws, flush_bounds, screen) -> None:  # noqa: C901
        stream = self.stream
        res = self.res
        where = f"mode={self.mode}" if self.mode != "loop" else "mode=loop"
        events = [e for e in events if e != "window resize"]
        # 2/5: byte accounting and bounded flush
        got = bytes(b & 0xFF for b in raws) if all(0 <= b < 256 for b in raws) else None
        if got != stream:
            if got is not None and stream.startswith(got) and screen._partial_codes:  # noqa: SLF001
                self.violate(
                    "C05.5",
                    f"bytes-still-pending-after-complete_wait {where}",
                    f"stream {stream.hex()} accounted {got.hex()} pending {bytes(screen._partial_codes).hex()}",  # noqa: SLF001
                )
            else:
                self.violate("C05.2", f"byte-accounting-mismatch {where}", f"stream {stream.hex()} raw {got.hex() if got is not None else raws}")
            return
        # 3: fragmentation invariance against whole delivery of each flush group
        bounds = sorted({b for b in flush_bounds if 0 < b < len(stream)})
        groups = []
        prev = 0
        for b in [*bounds, len(stream)]:
            groups.append(stream[prev:b])
            prev = b
        try:
            want = []
            for g in groups:
                want.extend(ref_decode(list(g)))
        except Exception as e:  # noqa: BLE001
            self.violate("C05.1", f"decoder-raised:{core.exc_signature(e)}", core.format_exc(e))
            return
        if events != want:
            self.violate(
                "C05.3",
                f"fragmentation-changes-events {where}",
                f"stream {stream.hex()} cuts {self.sch.get('cuts')} gaps {self.sch.get('gaps')} flush_bounds {bounds}: got {events!r} want {want!r}",
            )
            return
        # 4/6: token table (implementation independent) when no flush landed inside a token
        if all(t["exp"] is not None for t in self.tokens):
            tb = set()
            off = 0
            for t in self.tokens:
                off += len(t["hex"]) // 2
                tb.add(off)
            # a bare ESC followed by anything, or ESC-prefixed tokens after a meta-able byte, are
            # only generated at the end of the stream, so token boundaries are unambiguous
            if all(b in tb for b in bounds):
                exp = []
                for t in self.tokens:
                    exp.extend(t.get("exps") or [t["exp"]])
                if events != exp:
                    kinds, off = set(), 0
                    for t in self.tokens:
                        te = t.get("exps") or [t["exp"]]
                        if events[off : off + len(te)] != te:
                            kinds.add(t["k"])
                        off += len(te)
                    kinds = sorted(kinds)
                    self.violate(
                        "C05.4",
                        f"token-decoded-wrong kinds={','.join(kinds)} enc={self.enc}",
                        f"stream {stream.hex()} tokens {[t['hex'] for t in self.tokens]}: got {events!r} want {exp!r}",
                    )
                else:
                    res.probe("token_table_checked")
                    if any(t["k"] == "dbcs" and int(t["hex"][2:4], 16) < 0x80 for t in self.tokens):
                        res.probe("double_byte_with_ascii_range_trail_checked")


class InputEngine(Engine):
    prop = P
    name = "input"
    level = "fault_enumeration"
    tiers = {"quick": 12000, "thorough": 500000}
    rule = (
        "per sampled byte stream (1-5 tokens from the key table, X10/SGR mouse, CPR, UTF-8/double-byte, controls, "
        "meta, bare ESC, malformed material) ENUMERATE every single cut point x {remainder arrives 1/1024 s later, "
        "remainder arrives after complete_wait+1/1024 s (timeout fires first)}, then sampled multi-cut schedules with gaps "
        "from {0, 1/1024, cw-1/1024, cw, cw+1/1024, 1.0}, short reads, SIGWINCH between fragments, timer/arrival ties "
        "resolved both ways, six event loops and the synchronous get_input path. evaluations = streams; one stream = all "
        "its schedules. Non-trivial: the stream has >= 2 bytes and at least one cut fell inside a multi-byte token; "
        "distinct = distinct digests over (stream, all schedule logs)."
    )
    assumptions = [
        "the tty line discipline is not modelled: input bytes reach os.read as sent",
        "fragmentation-invariance reference = urwid's own process_keyqueue on each flush group delivered whole (metamorphic); "
        "the token table clause is independent of urwid's decoder",
        "flush groups are read off the event log (actual timeout flushes), never predicted",
        "EAGAIN/EOF on the controlling tty are not injected (outside C05's statement)",
    ]
    components = {
        "real": ["_posix_raw_display.Screen (start/stop, hook_event_loop, parse_input, get_input, _read_raw_input)", "escape.process_keyqueue / KeyqueueTrie", "all six event loops"],
        "stub": ["tty (fake descriptor, termios list)", "resize socket pair", "selectors / zmq poller / asyncio blocking step / trio fd wait", "clock"],
    }
    required_probes = ("token_table_checked", "timeout_and_arrival_same_instant", "cut_inside_token", "double_byte_with_ascii_range_trail_checked", "max_wait_set_beside_complete_wait")
    selftest_n = 1000
    reducible = ("schedules", "tokens")

    def extra_scenarios(self, tier: str) -> list[dict]:
        """Bursts: 1024, 2048 and 1023 / 1025 bytes (a paste, a flood of mouse reports) pending on the tty when the
        display reads - whole, and cut once - on the select loop, two other loops and the synchronous path."""
        out = []
        up = {"k": "golden", "hex": "1b5b41", "exp": "up"}
        a = {"k": "ascii", "hex": "61", "exp": "a"}
        for total in (1024, 2048, 1023, 1025):
            toks = [dict(up) for _ in range(total // 3)] + [dict(a) for _ in range(total % 3)]
            schedules = [{"cuts": [], "gaps": [], "loop": "select", "cw": CW}, {"cuts": [999], "gaps": [TICK], "loop": "select", "cw": CW}, {"cuts": [], "gaps": [], "loop": "select", "cw": CW, "mode": "sync"}]
            if total == 1024:
                schedules += [{"cuts": [], "gaps": [], "loop": "asyncio", "cw": CW, "tiebreak": [0] * 6}, {"cuts": [], "gaps": [], "loop": "zmq", "cw": CW, "tiebreak": [0] * 6}]
            out.append({"config": {"enc": "utf8"}, "tokens": toks, "schedules": schedules})
        return out

    def generate(self, rng: random.Random, tier: str) -> dict:
        enc = rng.choice(["utf8", "utf8", "wide", "narrow"])
        tokens = gen_tokens(rng, enc)
        n = sum(len(t["hex"]) // 2 for t in tokens)
        # the application's completion timeout (set_input_timeouts): the default and two other values
        cw = rng.choice([CW, CW, CW / 2, 4 * CW])
        gaps_grid = [0.0, TICK, cw - TICK, cw, cw + TICK, 1.0]
        schedules = [{"cuts": [], "gaps": [], "loop": "select", "cw": cw}]
        for c in range(1, n):
            schedules.append({"cuts": [c], "gaps": [TICK], "loop": "select", "cw": cw})
            schedules.append({"cuts": [c], "gaps": [cw + TICK], "loop": "select", "cw": cw})
        for _ in range(rng.randint(2, 5)):
            k = rng.randint(1, min(5, max(1, n - 1)))
            cuts = sorted(rng.sample(range(1, n), k)) if n > 1 else []
            sch = {
                "cuts": cuts,
                "gaps": [rng.choice(gaps_grid) for _ in cuts],
                "loop": rng.choice(loops.KINDS) if rng.random() < 0.7 else "select",
                "tiebreak": [rng.randrange(4) for _ in range(6)],
                "cw": cw,
            }
            if rng.random() < 0.3:
                sch["read_caps"] = [rng.choice([0, 1, 1, 2, 3]) for _ in range(rng.randint(1, 6))]
            if rng.random() < 0.15:
                sch["winch"] = [rng.choice([0.0, TICK, cw, 0.5])]
            if rng.random() < 0.2:
                sch["mode"] = "sync"
            schedules.append(sch)
        cfg = {"enc": enc}
        if enc == "wide":
            cfg["enc_name"] = rng.choice(WIDE_NAMES)
        return {"config": cfg, "tokens": tokens, "schedules": schedules}

    def execute(self, scen: dict) -> Result:
        res = Result()
        enc = scen["config"]["enc"]
        tokens = scen["tokens"]
        import hashlib  # noqa: PLC0415
        import os  # noqa: PLC0415

        keep = bool(os.environ.get("VERIF_KEEP_LOG"))
        sink = [] if keep else None
        h = hashlib.sha256()
        h.update(repr(scen.get("run_seed", 0)).encode())
        # cut-inside-token probe
        tb = set()
        off = 0
        for t in tokens:
            off += len(t["hex"]) // 2
            tb.add(off)
        for sch in scen["schedules"]:
            d = _Sched(res, enc, tokens, sch, sink, scen["config"].get("enc_name")).run()
            h.update(d.encode())
            if any(c not in tb for c in sch.get("cuts", []) if 0 < c < off):
                res.probe("cut_inside_token")
                res.nontrivial = True
            res.states.add(f"{enc}/{sch.get('loop', 'select')}/{sch.get('mode', 'loop')}/{min(3, len(sch.get('cuts', [])))}")
            res.info["schedules"] = res.info.get("schedules", 0) + 1
        res.probe("schedules_executed", len(scen["schedules"]))
        res.digest = h.hexdigest()
        if keep:
            res.info["log"] = sink
        return res

    def simplify(self, scen: dict):
        # shorten tokens from the right; simplify a schedule
        for i, t in enumerate(scen["tokens"]):
            data = bytes.fromhex(t["hex"])
            if len(data) > 1:
                for cand in (data[:-1], data[1:]):
                    c = dict(scen)
                    toks = [dict(x) for x in scen["tokens"]]
                    toks[i] = {"k": "malformed", "hex": cand.hex(), "exp": None}
                    c["tokens"] = toks
                    yield c
        for i, sch in enumerate(scen["schedules"]):
            for fld in ("read_caps", "winch", "tiebreak", "mode"):
                if sch.get(fld):
                    c = dict(scen)
                    ss = [dict(x) for x in scen["schedules"]]
                    del ss[i][fld]
                    c["schedules"] = ss
                    yield c
            if len(sch.get("cuts", [])) > 1:
                for j in range(len(sch["cuts"])):
                    c = dict(scen)
                    ss = [dict(x) for x in scen["schedules"]]
                    ss[i]["cuts"] = sch["cuts"][:j] + sch["cuts"][j + 1 :]
                    ss[i]["gaps"] = sch["gaps"][:j] + sch["gaps"][j + 1 :]
                    c["schedules"] = ss
                    yield c


ENGINE = InputEngine()
