"""C14 - signals reach every connected handler exactly once per emit   (engine `signals`)

Environment-decided dimensions: the moment a weak argument dies (refcount death caused by code
that runs inside a handler, or a cyclic-GC pass at an arbitrary point) and re-entrancy (handlers
that connect / disconnect / emit while an emit is walking the handler list).

Oracle: registry model with must / may / never sets per emit interval (DESIGN.md section 5, C14).
"""

from __future__ import annotations

import gc
import os
import random
import warnings
import weakref

from simkit import core
from simkit.core import EventLog
from simkit.runner import Engine, Result

P = "C14"

RETS = [None, False, 0, "", True, 1, "x", [], [0]]


class _Weakable:
    """A weakly referenceable argument; `cyclic` ones only die in a collector pass."""

    def __init__(self, wid: int, cyclic: bool) -> None:
        self.wid = wid
        if cyclic:
            self.me = self


class _WeakableFalse(_Weakable):
    """Alive but falsy through __bool__ (a widget or walker may define its own truth value)."""

    def __bool__(self) -> bool:
        return False


class _WeakableEmpty(_Weakable):
    """Alive but falsy through __len__ == 0 (an empty list walker / MonitoredList as weak argument)."""

    def __len__(self) -> int:
        return 0


_WEAK_KINDS = (_Weakable, _WeakableFalse, _WeakableEmpty)


class _Handler:
    def __init__(self, run: _Run, hid: int) -> None:
        self.run = run
        self.hid = hid
        self.calls = 0

    def __call__(self, *args):
        return self.run.on_call(self, args)


_CLASSES = None


def _make_classes():
    """Sender classes are created once per process: register_signal() keeps every class forever."""
    global _CLASSES  # noqa: PLW0603
    if _CLASSES is None:
        _CLASSES = _make_classes_once()
    return _CLASSES


def _make_classes_once():
    from urwid import signals  # noqa: PLC0415

    class SenderA(metaclass=signals.MetaSignals):
        signals = ["s1", "s2"]  # noqa: RUF012

        def __init__(self, sid, length=1):
            self.sid = sid
            self.length = length

        def __len__(self):  # a sender may be falsy (an empty list walker emits "modified")
            return self.length

    class SenderB(SenderA):
        signals = ["t1"]  # noqa: RUF012

    class SenderC(SenderB):  # third level with its own names: s1/s2 come from the grandparent
        signals = ["u1"]  # noqa: RUF012

    class SenderD(SenderB):  # third level without names of its own
        pass

    class SenderE:  # no metaclass: names registered at run time with register_signal()
        def __init__(self, sid, length=1):
            self.sid = sid
            self.length = length

        def __len__(self):
            return self.length

    signals.register_signal(SenderE, ["r1", "s1"])

    class Unregistered:
        def __init__(self, sid):
            self.sid = sid

    return SenderA, SenderB, SenderC, SenderD, SenderE, Unregistered


class _Entry:
    __slots__ = ("alive", "cid", "hid", "name", "sid", "user_arg", "user_args", "weak")

    def __init__(self, cid, sid, name, hid, weak, user_args, user_arg):
        self.cid = cid
        self.sid = sid
        self.name = name
        self.hid = hid
        self.weak = tuple(weak)
        self.user_args = tuple(user_args)
        self.user_arg = user_arg
        self.alive = True


class _EmitFrame:
    def __init__(self, eid, sid, name, args, start):
        self.eid = eid
        self.sid = sid
        self.name = name
        self.args = tuple(args)
        self.start = list(start)  # cids connected at start, in order
        self.gone = set()  # cids disconnected (any way) during the interval
        self.added = set()  # cids connected during the interval
        self.calls = []  # (hid, received-args canonical, ret)
        self.reentrant = False


class _Run:
    def __init__(self, scen: dict, res: Result) -> None:
        self.scen = scen
        self.res = res
        self.log = EventLog(keep=bool(os.environ.get("VERIF_KEEP_LOG")))
        cfg = scen["config"]
        from urwid import signals  # noqa: PLC0415

        self.sig = signals
        A, B, C, D, E, U = _make_classes()
        self.classes = [A, B, C, D, E]
        names_of = {A: ["s1", "s2"], B: ["t1", "s1", "s2"], C: ["s1", "u1", "t1", "s2"], D: ["s2", "t1", "s1"], E: ["r1", "s1"]}
        order = cfg.get("sender_classes") or [0, 1]
        self.senders = []
        self.sender_names = []
        for i in range(cfg["senders"]):
            cls = self.classes[order[i % len(order)] % 5]
            falsy = cfg.get("sender_empty", [])
            self.senders.append(cls(i, 0 if i < len(falsy) and falsy[i] else 1))
            self.sender_names.append(names_of[cls])
            if cls in (C, D):
                res.probe("sender_three_levels_deep")
            if cls is E:
                res.probe("sender_registered_at_run_time")
        self.sender_wr = [weakref.ref(s) for s in self.senders]
        self.unreg = U(99)
        self.handlers = [_Handler(self, i) for i in range(cfg["handlers"])]
        self.rets = list(cfg["rets"])
        kinds = cfg.get("weak_kind", [])
        self.weaks: list[_Weakable | None] = [
            _WEAK_KINDS[kinds[i] if i < len(kinds) else 0](i, c) for i, c in enumerate(cfg["weak_cyclic"])
        ]
        if any(kinds[: len(self.weaks)]):
            res.probe("falsy_weak_argument")
        if any(cfg.get("sender_empty", [])[: cfg["senders"]]):
            res.probe("falsy_sender")
        self.weak_wr = [weakref.ref(w) for w in self.weaks]
        self.weak_dead = [False] * len(self.weaks)
        self.weak_dropped = [False] * len(self.weaks)
        self.weak_cyclic = list(cfg["weak_cyclic"])
        self.entries: list[_Entry] = []
        self.keys = []
        self.registry: dict[tuple[int, str], list[int]] = {}
        self.stack: list[_EmitFrame] = []
        self.eid = 0
        self.behaviours = {}
        for b in scen.get("behaviours", []):
            self.behaviours.setdefault((b["handler"] % len(self.handlers), b["invocation"]), []).extend(b["do"])
        self.collected_since_drop = True
        self.n_ops = 0

    in_connect = False

    # ---- helpers -------------------------------------------------------------------------
    def violate(self, clause, sig, msg=""):
        self.res.violate(P, clause, sig, msg)
        self.log.add("violation", f"{clause} {sig}")

    def name_of(self, s: int, n) -> str:
        names = self.sender_names[s]
        return names[n % len(names)]

    def refresh(self) -> None:
        """Poll actual liveness of weak arguments; entries of dead ones leave the registry."""
        for i, wr in enumerate(self.weak_wr):
            if not self.weak_dead[i] and wr() is None:
                self.weak_dead[i] = True
                self.log.add("weak-dead", i)
                if self.in_connect:
                    self.res.probe("weak_died_inside_connect")
                if self.stack:
                    self.res.probe("weak_died_inside_emit")
                for e in self.entries:
                    if e.alive and i in e.weak and self.senders[e.sid] is not None:
                        self.model_disconnect(e.cid, "weakdeath")

    def model_disconnect(self, cid: int, why: str) -> None:
        e = self.entries[cid]
        if not e.alive:
            return
        e.alive = False
        lst = self.registry.get((e.sid, e.name), [])
        idx = lst.index(cid)
        lst.remove(cid)
        for fr in self.stack:
            if fr.sid == e.sid and fr.name == e.name:
                fr.gone.add(cid)
                fr.reentrant = True
                if why != "weakdeath":
                    if cid in fr.start:
                        called = len(fr.calls)
                        self.res.probe("disconnect_during_emit")
                        if idx < called:
                            self.res.probe("earlier_or_self_disconnect_with_later_present")

    def expected_args(self, e: _Entry, emit_args) -> tuple:
        a = [("w", w) for w in e.weak] + list(e.user_args) + list(emit_args)
        if e.user_arg is not None:
            a.append(e.user_arg)
        return tuple(a)

    def canon_args(self, args) -> tuple:
        out = []
        for a in args:
            if isinstance(a, _Weakable):
                out.append(("w", a.wid))
            else:
                out.append(a)
        return tuple(out)

    # ---- handler invocation --------------------------------------------------------------
    def on_call(self, h: _Handler, args):
        self.refresh()
        got = self.canon_args(args)
        del args
        k = h.calls
        h.calls += 1
        ret = self.rets[h.hid % len(self.rets)]
        self.log.add("call", [h.hid, k, repr(got), len(self.stack)])
        if not self.stack:
            self.violate("C14.3", "handler-called-outside-emit", f"handler {h.hid} args {got}")
            return RETS[ret]
        fr = self.stack[-1]
        fr.calls.append((h.hid, got, ret))
        todo = self.behaviours.get((h.hid, k))
        if todo:
            for op in todo:
                self.do(op, inside=True)
        self.refresh()
        return RETS[ret]

    # ---- operations ----------------------------------------------------------------------
    def do(self, op: dict, inside: bool = False) -> None:  # noqa: C901, PLR0912, PLR0915
        kind = op["op"]
        sig = self.sig
        self.n_ops += 1
        if self.n_ops > 400:
            return
        self.res.states.add(
            f"{kind}/{len(self.stack)}/{min(3, sum(e.alive for e in self.entries))}/"
            f"{any(d and not x for d, x in zip(self.weak_dropped, self.weak_dead))}"
        )
        if kind == "connect":
            s = op["s"] % len(self.senders)
            if self.senders[s] is None:
                return
            name = self.name_of(s, op["n"])
            hid = op["h"] % len(self.handlers)
            weak = [w % len(self.weaks) for w in op.get("weak", [])] if self.weaks else []
            if any(self.weaks[w] is None for w in weak):
                return
            uargs = list(op.get("uargs", []))
            uarg = op.get("uarg")
            cid = len(self.entries)
            if op.get("token", True):
                uargs = [f"c{cid}", *uargs]
            during = [d for d in op.get("during", []) if d.get("op") in ("drop", "collect")]
            if self.weaks:
                during = [d for d in during if d["op"] != "drop" or (d["w"] % len(self.weaks)) not in weak]
            else:
                during = [d for d in during if d["op"] != "drop"]

            def user_args_iter():
                # the collector may run at any allocation inside connect(): model it by letting weak arguments of
                # OTHER handlers die (or a collector pass happen) while connect is preparing its arguments
                self.in_connect = True
                try:
                    for d in during:
                        self.res.fault("gc_or_drop_inside_connect")
                        self.do(d, inside=bool(self.stack))
                finally:
                    self.in_connect = False
                yield from uargs

            with warnings.catch_warnings():
                warnings.simplefilter("ignore")
                try:
                    key = sig.connect_signal(
                        self.senders[s],
                        name,
                        self.handlers[hid],
                        uarg,
                        weak_args=[self.weaks[w] for w in weak],
                        user_args=user_args_iter() if during else uargs,
                    )
                except Exception as e:  # noqa: BLE001
                    self.violate("C14.6", f"connect-raised:{core.exc_signature(e)}", repr(e))
                    return
            self.entries.append(_Entry(cid, s, name, hid, weak, uargs, uarg))
            self.keys.append(key)
            self.registry.setdefault((s, name), []).append(cid)
            for fr in self.stack:
                if fr.sid == s and fr.name == name:
                    fr.added.add(cid)
                    fr.reentrant = True
                    self.res.probe("connect_during_emit")
            self.log.add("connect", [cid, s, name, hid, weak, repr(uargs), repr(uarg)])
        elif kind == "connect_bad":
            s = op["s"] % len(self.senders)
            target = self.unreg if op.get("unreg") else self.senders[s]
            if target is None:
                return
            name = "nosuch" if not op.get("unreg") else "s1"
            if op.get("after_disconnect"):
                # the "disconnect the old handler, then connect the new one" idiom with a name the class does not have:
                # the disconnects do nothing, the connect is still rejected
                try:
                    sig.disconnect_signal(target, name, self.handlers[op["h"] % len(self.handlers)])
                    sig.disconnect_signal_by_key(target, name, object())
                except Exception as ex:  # noqa: BLE001
                    self.violate("C14.6", f"disconnect-raised:{core.exc_signature(ex)}", repr(ex))
                    return
                self.res.probe("disconnect_of_unregistered_name_before_connect")
            try:
                sig.connect_signal(target, name, self.handlers[op["h"] % len(self.handlers)])
            except NameError:
                self.log.add("connect_bad", "NameError")
                self.res.probe("connect_unregistered_rejected")
            except Exception as e:  # noqa: BLE001
                self.violate("C14.6", f"connect-bad-raised:{type(e).__name__}", repr(e))
            else:
                self.violate("C14.6", "connect-unregistered-accepted", f"name={name}")
        elif kind in {"disconnect", "disconnect_key"}:
            if not self.entries:
                return
            cid = op["c"] % len(self.entries)
            e = self.entries[cid]
            if self.senders[e.sid] is None:
                return
            was_alive = e.alive
            try:
                if kind == "disconnect_key":
                    sig.disconnect_signal_by_key(self.senders[e.sid], e.name, self.keys[cid])
                    target = cid if e.alive else None
                else:
                    if any(self.weaks[w] is None or self.weak_dead[w] for w in e.weak):
                        return
                    with warnings.catch_warnings():
                        warnings.simplefilter("ignore")
                        sig.disconnect_signal(
                            self.senders[e.sid],
                            e.name,
                            self.handlers[e.hid],
                            e.user_arg,
                            weak_args=[self.weaks[w] for w in e.weak],
                            user_args=list(e.user_args),
                        )
                    # removes the first connected entry with identical arguments
                    target = None
                    for c2 in self.registry.get((e.sid, e.name), []):
                        e2 = self.entries[c2]
                        if (e2.hid, e2.user_arg, e2.weak, e2.user_args) == (e.hid, e.user_arg, e.weak, e.user_args):
                            target = c2
                            break
            except Exception as ex:  # noqa: BLE001
                self.violate("C14.6", f"disconnect-raised:{core.exc_signature(ex)}", repr(ex))
                return
            if target is not None:
                self.model_disconnect(target, kind)
            if not was_alive:
                self.res.probe("disconnect_of_not_connected")
            self.log.add(kind, [cid, target])
        elif kind == "disconnect_never":
            s = op["s"] % len(self.senders)
            if self.senders[s] is None:
                return
            try:
                sig.disconnect_signal(
                    self.senders[s], self.name_of(s, op["n"]), self.handlers[op["h"] % len(self.handlers)], user_args=["never"]
                )
                sig.disconnect_signal_by_key(self.senders[s], self.name_of(s, op["n"]), object())
            except Exception as ex:  # noqa: BLE001
                self.violate("C14.6", f"disconnect-raised:{core.exc_signature(ex)}", repr(ex))
            self.res.probe("disconnect_of_not_connected")
            self.log.add("disconnect_never", s)
        elif kind == "emit":
            if len(self.stack) >= 3:
                return
            s = op["s"] % len(self.senders)
            if self.senders[s] is None:
                return
            name = self.name_of(s, op["n"])
            self.emit(s, name, list(op.get("args", [])))
        elif kind == "drop":
            if not self.weaks:
                return
            w = op["w"] % len(self.weaks)
            if self.weaks[w] is None:
                return
            self.weaks[w] = None
            self.weak_dropped[w] = True
            self.res.fault("drop_last_reference")
            if inside:
                self.res.fault("drop_inside_emit")
            self.log.add("drop", w)
            self.refresh()
        elif kind == "collect":
            gc.collect()
            self.res.fault("gc_collect")
            if inside:
                self.res.fault("gc_collect_inside_emit")
            self.log.add("collect", "")
            self.refresh()
        elif kind == "drop_sender":
            s = op["s"] % len(self.senders)
            if self.senders[s] is None or any(fr.sid == s for fr in self.stack):
                return
            self.senders[s] = None
            for e in self.entries:
                if e.sid == s:
                    e.alive = False
            self.log.add("drop_sender", s)
            self.res.probe("sender_dropped")
        if not self.stack:
            self.toplevel_checks()

    def emit(self, s: int, name: str, args: list) -> None:
        self.refresh()
        self.eid += 1
        fr = _EmitFrame(self.eid, s, name, args, self.registry.get((s, name), []))
        depth = len(self.stack)
        if depth:
            self.res.probe("recursive_emit")
            for f2 in self.stack:
                f2.reentrant = True
        self.stack.append(fr)
        self.log.add("emit>", [fr.eid, s, name, repr(args), list(fr.start)])
        try:
            rv = self.sig.emit_signal(self.senders[s], name, *args)
        except Exception as e:  # noqa: BLE001
            self.stack.pop()
            if core.raised_in_harness(e):
                raise core.HarnessError(f"harness raised inside emit: {core.format_exc(e)}") from e
            self.violate("C14.1", f"emit-raised:{core.exc_signature(e)}", core.format_exc(e))
            return
        # deaths that happened after the last handler entry belong to this interval
        self.refresh()
        self.stack.pop()
        self.log.add("emit<", [fr.eid, bool(rv)])
        self.check_emit(fr, rv)

    def check_emit(self, fr: _EmitFrame, rv) -> None:
        ents = self.entries
        must, may = [], []
        for cid in fr.start:
            (may if cid in fr.gone else must).append(cid)
        may += sorted(fr.added)
        sig_must: dict[tuple, int] = {}
        sig_may: dict[tuple, int] = {}
        for cid in must:
            k = (ents[cid].hid, self.expected_args(ents[cid], fr.args))
            sig_must[k] = sig_must.get(k, 0) + 1
        for cid in may:
            k = (ents[cid].hid, self.expected_args(ents[cid], fr.args))
            sig_may[k] = sig_may.get(k, 0) + 1
        seen: dict[tuple, int] = {}
        for hid, got, _ret in fr.calls:
            seen[(hid, got)] = seen.get((hid, got), 0) + 1
        if len(fr.calls) >= 2:
            self.res.probe("emit_reached_2plus_handlers")
        if fr.reentrant and len(fr.start) >= 2:
            self.res.nontrivial = True
        shape = f"start={len(fr.start)} gone={len(fr.gone)} added={len(fr.added)}"
        for k, n in sig_must.items():
            got_n = seen.get(k, 0)
            hi = n + sig_may.get(k, 0)
            if got_n < n:
                self.violate(
                    "C14.1",
                    "connected-handler-skipped" if got_n == 0 else "connected-handler-called-too-few",
                    f"emit {fr.eid} {shape}: handler {k[0]} expected args {k[1]} called {got_n}x, must be {n}..{hi}",
                )
            elif got_n > hi:
                self.violate(
                    "C14.1",
                    "handler-called-more-than-once",
                    f"emit {fr.eid} {shape}: handler {k[0]} args {k[1]} called {got_n}x, must be {n}..{hi}",
                )
        for k, n in seen.items():
            if k in sig_must:
                continue
            if k in sig_may:
                if n > sig_may[k]:
                    self.violate("C14.2", "transient-handler-called-more-than-once", f"emit {fr.eid}: {k} {n}x")
                continue
            # neither must nor may: wrong arguments, or a handler that may never be called
            hids = {ents[c].hid for c in must + may}
            if k[0] in hids:
                self.violate("C14.4", "handler-received-wrong-arguments", f"emit {fr.eid}: handler {k[0]} got {k[1]}")
            else:
                self.violate("C14.3", "disconnected-or-dead-handler-called", f"emit {fr.eid}: handler {k[0]} got {k[1]}")
        # order of the must handlers (only those whose signature is unambiguous)
        uniq = [k for k in sig_must if sig_must[k] == 1 and k not in sig_may]
        want = [
            (ents[c].hid, self.expected_args(ents[c], fr.args))
            for c in must
            if (ents[c].hid, self.expected_args(ents[c], fr.args)) in uniq
        ]
        got_order = [(h, g) for h, g, _ in fr.calls if (h, g) in uniq]
        if sorted(map(repr, want)) == sorted(map(repr, got_order)) and want != got_order:
            self.violate("C14.1", "handlers-not-in-connection-order", f"emit {fr.eid}: want {want} got {got_order}")
        exp_rv = any(bool(RETS[r]) for _, _, r in fr.calls)
        if bool(rv) != exp_rv:
            self.violate("C14.5", "emit-return-value-wrong", f"emit {fr.eid}: returned {rv!r}, handlers' OR is {exp_rv}")

    def toplevel_checks(self) -> None:
        """Clause 7: the machinery keeps neither a weak argument nor a sender alive."""
        self.refresh()
        for i in range(len(self.weak_wr)):
            if self.weak_dropped[i] and not self.weak_dead[i] and not self.weak_cyclic[i]:
                self.violate("C14.7", "weak-argument-kept-alive", f"weak {i} dropped (no cycle) but still alive")
                self.weak_dead[i] = True
        for s, wr in enumerate(self.sender_wr):
            if self.senders[s] is None and wr() is not None:
                self.violate("C14.7", "sender-kept-alive", f"sender {s} dropped but still alive")
                self.sender_wr[s] = lambda: None

    def finish(self) -> None:
        # final: collect, then everything dropped must be dead
        gc.collect()
        self.refresh()
        for i in range(len(self.weak_wr)):
            if self.weak_dropped[i] and not self.weak_dead[i]:
                self.violate("C14.7", "weak-argument-kept-alive-after-collect", f"weak {i}")
        # final sweep emit on every live sender/name verifies registry state after the history
        for s in range(len(self.senders)):
            if self.senders[s] is None:
                continue
            for name in self.sender_names[s]:
                self.behaviours = {}
                self.emit(s, name, ["final"])


_COUNTING_LISTBOX = None


def _counting_listbox():
    """Made once per process (urwid keeps every widget class for ever)."""
    global _COUNTING_LISTBOX  # noqa: PLW0603
    if _COUNTING_LISTBOX is None:
        import urwid  # noqa: PLC0415

        class CountingListBox(urwid.ListBox):
            n_inv = 0

            def _invalidate(self):
                self.n_inv += 1
                super()._invalidate()

        _COUNTING_LISTBOX = CountingListBox
    return _COUNTING_LISTBOX


class _WidgetRun:
    """Signals as the bundled widgets emit them (Widget._emit: the widget itself is the first emitted argument).

    The emission contract is the documented one: CheckBox / RadioButton emit 'change' (widget, new_state) before and
    'postchange' (widget, old_state) after every real state change made with do_callback true - set_state, the state
    property, toggle_state, the activate keys, a button-1 press - and nothing when the state stays or do_callback is
    false; a RadioButton that becomes True clears the other true buttons of its group, each of which reports its own
    change; Button emits 'click' (button) for an activate key and a button-1 press; the bundled list walkers emit
    'modified' () once per list operation.  Every emission must reach the handlers connected to that widget and name,
    once each, in connection order, user arguments first."""

    def __init__(self, scen: dict, res: Result) -> None:
        import urwid  # noqa: PLC0415

        self.scen, self.res = scen, res
        self.log = EventLog(keep=bool(os.environ.get("VERIF_KEEP_LOG")))
        self.calls: list = []
        self.reclick_armed = False
        self.urwid = urwid
        group: list = []
        self.widgets = [
            urwid.CheckBox("a"),
            urwid.CheckBox("b", state=True, has_mixed=True),
            urwid.RadioButton(group, "r0"),
            urwid.RadioButton(group, "r1"),
            urwid.RadioButton(group, "r2"),
            None,  # the Button is created in run(): its constructor connects handler 3 with user_data 0
            urwid.SimpleListWalker([urwid.Text("x")]),
            urwid.SimpleFocusListWalker([urwid.Text("y")]),
        ]
        self.group = [2, 3, 4]
        self.state = {0: False, 1: True, 2: True, 3: False, 4: False}
        self.conns: list = []  # [widget index, name, handler id, user args tuple, key, connected]

    NAMES = {0: ("change", "postchange"), 1: ("change", "postchange"), 2: ("change", "postchange"), 3: ("change", "postchange"), 4: ("change", "postchange"), 5: ("click",), 6: ("modified",), 7: ("modified",)}

    def violate(self, clause, sig, msg=""):
        self.res.violate(P, clause, sig + " [widget signals]", msg)
        self.log.add("violation", f"{clause} {sig}")

    def handler(self, hid: int):
        def h(*args):
            self.calls.append((hid, args))
            if self.reclick_armed and any(a is self.widgets[5] for a in args):
                # the handler presses the button again while its click is still being delivered (a nested emit of the
                # same signal by the same widget): every connected handler is called for it too
                self.reclick_armed = False
                self.widgets[5].keypress((12,), "enter")

        h.hid = hid
        return h

    def expect_state_change(self, wi: int, new, do_callback: bool, out: list) -> None:
        old = self.state[wi]
        if old == new:
            return
        if do_callback:
            out.append((wi, "change", (new,)))
        self.state[wi] = new
        if do_callback:
            out.append((wi, "postchange", (old,)))
        if wi in self.group and new is True:
            for other in self.group:
                if other != wi and self.state[other]:
                    self.expect_state_change(other, False, True, out)

    def toggled(self, wi: int):
        st = self.state[wi]
        if wi in self.group:
            return True
        if st is False:
            return True
        if st is True:
            return "mixed" if wi == 1 else False
        return False

    def run(self) -> str:  # noqa: C901, PLR0912, PLR0915
        urwid = self.urwid
        handlers = [self.handler(i) for i in range(4)]
        # Button(label, on_press, user_data): the deprecated positional user_arg, here a falsy value (the first button
        # of `[Button(lbl, cb, i) for i, lbl in enumerate(...)]`); it is passed after the emitted arguments
        self.widgets[5] = urwid.Button("ok", on_press=handlers[3], user_data=0)
        self.conns.append([5, "click", 3, (), None, True, 0])
        # a ListBox is a signal receiver itself: it connects its _invalidate to its walker's 'modified' and must
        # disconnect it from a walker it is taken off (the body may be replaced, also while it is empty)
        lb = _counting_listbox()(self.widgets[6])
        cur_body = 6
        for i, op in enumerate(self.scen["ops"]):
            k = op["op"]
            wi = op.get("w", 0) % len(self.widgets)
            w = self.widgets[wi]
            try:
                if k == "conn":
                    name = self.NAMES[wi][op.get("n", 0) % len(self.NAMES[wi])]
                    ua = tuple(op.get("ua", ()))
                    hid = op.get("h", 0) % len(handlers)
                    key = urwid.connect_signal(w, name, handlers[hid], user_args=list(ua)) if ua else urwid.connect_signal(w, name, handlers[hid])
                    self.conns.append([wi, name, hid, ua, key, True, None])
                    self.log.add("conn", [wi, name, hid, list(ua)])
                    continue
                if k == "disc":
                    live = [c for c in self.conns if c[5] and c[4] is not None]
                    if not live:
                        continue
                    c = live[op.get("c", 0) % len(live)]
                    if op.get("by_key"):
                        urwid.disconnect_signal_by_key(self.widgets[c[0]], c[1], c[4])
                        c[5] = False
                    else:
                        if c[6] is not None:
                            urwid.disconnect_signal(self.widgets[c[0]], c[1], handlers[c[2]], c[6])
                        elif c[3]:
                            urwid.disconnect_signal(self.widgets[c[0]], c[1], handlers[c[2]], user_args=list(c[3]))
                        else:
                            urwid.disconnect_signal(self.widgets[c[0]], c[1], handlers[c[2]])
                        # removes the first connection with these arguments
                        first = next(x for x in self.conns if x[5] and x[:4] == c[:4] and ((x[6] is None) if c[6] is None else (x[6] is not None and x[6] == c[6])))
                        first[5] = False
                        if first[4] is None:
                            self.res.probe("constructor_connection_disconnected_by_arguments")
                    self.log.add("disc", [c[0], c[1], c[2], bool(op.get("by_key"))])
                    continue
                if k == "conn_ud":
                    # the form Button documents: connect_signal(button, 'click', callback, user_data)
                    hid = op.get("h", 0) % len(handlers)
                    ud = [0, 7][op.get("ud", 0) % 2]
                    key = urwid.connect_signal(self.widgets[5], "click", handlers[hid], ud)
                    self.conns.append([5, "click", hid, (), key, True, ud])
                    self.log.add("conn_ud", [hid, ud])
                    continue
                if k == "disc_ud":
                    # ... and disconnect_signal(button, 'click', callback, user_data), which also removes the connection the
                    # constructor made ("on_press: shorthand for connect_signal()"); nothing connected that way: no effect
                    hid = op.get("h", 3) % len(handlers)
                    ud = [0, 7][op.get("ud", 0) % 2]
                    urwid.disconnect_signal(self.widgets[5], "click", handlers[hid], ud)
                    first = next((x for x in self.conns if x[5] and x[:4] == [5, "click", hid, ()] and x[6] is not None and x[6] == ud), None)
                    if first is not None:
                        first[5] = False
                        if first[4] is None:
                            self.res.probe("constructor_connection_disconnected_by_arguments")
                    self.log.add("disc_ud", [hid, ud, first is not None])
                    continue
                if k == "body":
                    cur_body = 6 + op.get("to", 0) % 2
                    lb.body = self.widgets[cur_body]
                    self.log.add("body", cur_body)
                    self.res.probe("listbox_body_replaced")
                    continue
                if k != "act":
                    continue
                exp: list = []
                del self.calls[:]
                a = op.get("a", 0)
                if wi <= 4:
                    how = a % 6
                    if how == 0:
                        v = [True, False, "mixed"][op.get("v", 0) % (3 if wi == 1 else 2)]
                        dc = not op.get("quiet")
                        w.set_state(v, dc)
                        self.expect_state_change(wi, v, dc, exp)
                    elif how == 1 and wi <= 1:
                        # (the state property is CheckBox's: on a RadioButton it does not go through the group logic,
                        # which is a matter of the widget, not of its signals - radio buttons are set with set_state)
                        v = [True, False][op.get("v", 0) % 2]
                        w.state = v
                        self.expect_state_change(wi, v, True, exp)
                    elif how == 1:
                        v = [True, False][op.get("v", 0) % 2]
                        w.set_state(v)
                        self.expect_state_change(wi, v, True, exp)
                    elif how == 2:
                        nv = self.toggled(wi)
                        w.toggle_state()
                        self.expect_state_change(wi, nv, True, exp)
                    elif how == 3:
                        key = [" ", "enter", "x"][op.get("v", 0) % 3]
                        nv = self.toggled(wi)
                        rv = w.keypress((12,), key)
                        if key != "x":
                            self.expect_state_change(wi, nv, True, exp)
                        elif rv != "x":
                            self.violate("C14.1", "unbound-key-not-returned", f"step {i}")
                    elif how == 4:
                        nv = self.toggled(wi)
                        w.mouse_event((12,), "mouse press", 1, 1, 0, True)
                        self.expect_state_change(wi, nv, True, exp)
                    else:
                        w.mouse_event((12,), "mouse press", 3, 1, 0, True)  # another button: nothing happens
                    if w.state != self.state[wi]:
                        self.violate("C14.1", "widget-state-differs-from-documented-state", f"step {i}: widget {wi} state {w.state!r} expected {self.state[wi]!r}")
                        break
                elif wi == 5:
                    how = a % 4
                    reclick = how in (0, 1) and op.get("v", 0) % 3 == 0
                    self.reclick_armed = reclick
                    if how == 0:
                        w.keypress((12,), "enter")
                        exp.append((5, "click", ()))
                    elif how == 1:
                        w.mouse_event((12,), "mouse press", 1, 2, 0, True)
                        exp.append((5, "click", ()))
                    elif how == 2:
                        w.keypress((12,), "x")
                    else:
                        w.mouse_event((12,), "mouse release", 0, 2, 0, True)
                else:
                    how = a % 5
                    inv0 = lb.n_inv
                    if how == 0 or not len(w):
                        w.append(urwid.Text("n"))
                    elif how == 1:
                        w.insert(0, urwid.Text("i"))
                    elif how == 2 and len(w) > 1:
                        del w[0]
                    elif how == 3:
                        del w[:]
                    else:
                        w[0] = urwid.Text("r")
                    exp.append((wi, "modified", ()))
                    got_inv, want_inv = lb.n_inv - inv0, (1 if wi == cur_body else 0)
                    if got_inv != want_inv:
                        self.violate("C14.3" if got_inv > want_inv else "C14.1", "listbox-invalidated-%s-by-its-walkers-modified-signal" % ("too-often" if got_inv > want_inv else "too-rarely"), f"step {i}: walker {wi} (current body: {cur_body}) changed: ListBox._invalidate ran {got_inv}x, expected {want_inv}x")
                        break
                    self.res.probe("listbox_walker_signal_checked")
                self.log.add("act", [wi, a, op.get("v", 0), bool(op.get("quiet"))])
            except Exception as e:  # noqa: BLE001
                if core.raised_in_harness(e):
                    raise core.HarnessError(f"harness exception in widget-signal op {op}: {core.format_exc(e)}") from e
                self.violate("C14.1", f"widget-signal-op-raised:{core.exc_signature(e)}", f"step {i} {op}: {core.format_exc(e)}")
                break
            want = []
            for ewi, name, args in exp:
                seq = []
                for c in self.conns:
                    if c[5] and c[0] == ewi and c[1] == name:
                        # (the list walkers are not widgets: they emit 'modified' without themselves as an argument)
                        tail = () if c[6] is None else (c[6],)
                        seq.append((c[2], (*c[3], *args, *tail) if ewi >= 6 else (*c[3], self.widgets[ewi], *args, *tail)))
                if ewi == 5 and name == "click" and seq and wi == 5 and k == "act" and op.get("v", 0) % 3 == 0:
                    # the first handler pressed the button again: a complete nested delivery, then the rest of the outer one
                    seq = [seq[0], *seq, *seq[1:]]
                    self.res.probe("handler_re_emits_the_signal_it_handles")
                want.extend(seq)
            self.reclick_armed = False
            got = list(self.calls)
            self.log.add("calls", [[h, len(a_)] for h, a_ in got])
            if exp:
                self.res.probe("widget_emission_checked")
            if len(want) >= 2:
                self.res.probe("widget_emission_reached_2plus_handlers")
                self.res.nontrivial = True
            if len(exp) >= 4:
                self.res.probe("radio_group_cascade")
            if got != want:
                def show(lst):
                    return [(h, tuple("<w>" if hasattr(x, "render") or hasattr(x, "get_focus") else x for x in a_)) for h, a_ in lst]

                self.violate("C14.1" if len(got) != len(want) else "C14.4", "widget-emission-differs-from-documented-contract", f"step {i} {op}: handlers called {show(got)}, expected {show(want)} (emissions {[(a_, b_, c_) for a_, b_, c_ in exp]})")
                break
        return self.log.digest()


class SignalsEngine(Engine):
    prop = P
    name = "signals"
    level = "exploration"
    tiers = {"quick": 150000, "thorough": 5000000}
    rule = (
        "seeded histories of connect/disconnect/disconnect_by_key/emit/drop/gc.collect over 2-3 senders, "
        "2-3 signal names and 2-6 scripted handlers; scripted handler behaviours put list edits, recursive "
        "emits, last-reference drops and collector passes INSIDE emits. A run is non-trivial when some emit "
        "that started with >=2 connected handlers saw a re-entrant edit, weak death or nested emit; "
        "distinct = distinct event-log digests among those. One history in ten instead drives the bundled emitters "
        "(CheckBox, RadioButton group, Button, the two list walkers) through their public mutators, keys and mouse presses "
        "with plain handlers connected / disconnected in between, and compares every handler call with the documented "
        "emission contract (change before / postchange after a real state change, click, modified; the widget first)."
    )
    assumptions = [
        "gc is disabled for the run; cyclic garbage is only collected by scheduled gc.collect() operations",
        "liveness of weak arguments is polled at every handler entry/exit and operation boundary",
        "handlers do not raise (exceptions from handlers are outside C14)",
    ]
    components = {
        "real": ["urwid.signals (Signals, MetaSignals, connect/disconnect/emit)"],
        "stub": ["handlers, senders and weak arguments are harness objects (the widget histories use real CheckBox / RadioButton / Button / list walkers as senders)"],
        "driven": ["garbage-collection timing", "re-entrant calls from handlers"],
    }
    required_probes = (
        "weak_died_inside_emit",
        "falsy_weak_argument",
        "falsy_sender",
        "sender_three_levels_deep",
        "sender_registered_at_run_time",
        "weak_died_inside_connect",
        "disconnect_during_emit",
        "earlier_or_self_disconnect_with_later_present",
        "connect_during_emit",
        "recursive_emit",
        "connect_unregistered_rejected",
        "disconnect_of_not_connected",
        "widget_emission_checked",
        "radio_group_cascade",
        "constructor_connection_disconnected_by_arguments",
        "handler_re_emits_the_signal_it_handles",
    )
    reducible = ("ops", "behaviours")

    def generate(self, rng: random.Random, tier: str) -> dict:
        if rng.random() < 0.1:
            ops = []
            for _ in range(rng.randint(2, 20)):
                r = rng.random()
                if r < 0.35:
                    ops.append({"op": "conn", "w": rng.randrange(8), "n": rng.randrange(2), "h": rng.randrange(4), "ua": rng.choice([[], [], ["u"], ["u", 7]])})
                elif r < 0.45:
                    ops.append({"op": "disc", "c": rng.randrange(6), "by_key": rng.random() < 0.5})
                elif r < 0.52:
                    ops.append({"op": "body", "to": rng.randrange(2)})
                elif r < 0.56:
                    ops.append({"op": "conn_ud", "h": rng.randrange(4), "ud": rng.randrange(2)})
                elif r < 0.61:
                    ops.append({"op": "disc_ud", "h": rng.choice([3, 3, rng.randrange(4)]), "ud": rng.choice([0, 0, 1])})
                else:
                    ops.append({"op": "act", "w": rng.randrange(8), "a": rng.randrange(12), "v": rng.randrange(6), "quiet": rng.random() < 0.15})
            return {"mode": "widgets", "config": {}, "ops": ops, "behaviours": []}
        n_s = rng.randint(1, 3)
        n_h = rng.randint(2, 6)
        n_w = rng.randint(0, 3)
        cfg = {
            "senders": n_s,
            "handlers": n_h,
            "rets": [rng.randrange(len(RETS)) if rng.random() < 0.5 else 0 for _ in range(n_h)],
            "weak_cyclic": [rng.random() < 0.5 for _ in range(n_w)],
            "weak_kind": [rng.choice([0, 0, 0, 1, 2]) for _ in range(n_w)],
            "sender_empty": [rng.random() < 0.15 for _ in range(n_s)],
            "sender_classes": [rng.randrange(5) for _ in range(n_s)],
        }
        ops = []
        n_ops = rng.randint(1, 25)
        # bias: start with a few connects on one signal
        hot_s, hot_n = rng.randrange(n_s), rng.randrange(3)

        def rand_op(inside=False):
            r = rng.random()
            s = hot_s if rng.random() < 0.7 else rng.randrange(n_s)
            n = hot_n if rng.random() < 0.7 else rng.randrange(3)
            if r < 0.30:
                op = {"op": "connect", "s": s, "n": n, "h": rng.randrange(n_h)}
                if n_w and rng.random() < 0.4:
                    op["weak"] = [rng.randrange(n_w) for _ in range(rng.randint(1, 2))]
                if rng.random() < 0.3:
                    op["uargs"] = [rng.randint(0, 3) for _ in range(rng.randint(1, 2))]
                if rng.random() < 0.1:
                    # (the deprecated positional user_arg: absent only when it is None - 0, False and "" are values)
                    op["uarg"] = rng.choice([1, 2, 3, 0, False, ""])
                if rng.random() < 0.15:
                    op["token"] = False
                if n_w and rng.random() < 0.2:
                    op["during"] = [{"op": "drop", "w": rng.randrange(n_w)}] if rng.random() < 0.75 else [{"op": "collect"}]
                return op
            if r < 0.42:
                return {"op": "disconnect_key", "c": rng.randrange(16)}
            if r < 0.52:
                return {"op": "disconnect", "c": rng.randrange(16)}
            if r < 0.78:
                return {"op": "emit", "s": s, "n": n, "args": [rng.randint(0, 9) for _ in range(rng.randint(0, 2))]}
            if r < 0.86:
                return {"op": "drop", "w": rng.randrange(4)}
            if r < 0.92:
                return {"op": "collect"}
            if r < 0.95:
                return {"op": "connect_bad", "s": s, "h": rng.randrange(n_h), "unreg": rng.random() < 0.3, "after_disconnect": rng.random() < 0.5}
            if r < 0.98:
                return {"op": "disconnect_never", "s": s, "n": n, "h": rng.randrange(n_h)}
            return {"op": "drop_sender", "s": rng.randrange(n_s)}

        for _ in range(rng.randint(0, 4)):
            op = {"op": "connect", "s": hot_s, "n": hot_n, "h": rng.randrange(n_h)}
            if n_w and rng.random() < 0.4:
                op["weak"] = [rng.randrange(n_w)]
            ops.append(op)
        for _ in range(n_ops):
            ops.append(rand_op())
        ops.append({"op": "emit", "s": hot_s, "n": hot_n, "args": [7]})
        behaviours = []
        for _ in range(rng.randint(0, 5)):
            behaviours.append(
                {
                    "handler": rng.randrange(n_h),
                    "invocation": rng.randint(0, 2),
                    "do": [rand_op(True) for _ in range(rng.randint(1, 2))],
                }
            )
        return {"config": cfg, "ops": ops, "behaviours": behaviours}

    def execute(self, scen: dict) -> Result:
        res = Result()
        if scen.get("mode") == "widgets":
            wr = _WidgetRun(scen, res)
            res.digest = wr.run()
            if wr.log.keep:
                res.info["log"] = wr.log.lines
            return res
        core.gc_freeze_once()
        gc.collect()
        gc.disable()
        run = _Run(scen, res)
        try:
            run.log.add("seed", scen.get("run_seed", 0))
            for op in scen["ops"]:
                run.do(op)
            run.finish()
        finally:
            run.handlers = []
            gc.enable()
        res.digest = run.log.digest()
        if run.log.keep:
            res.info["log"] = run.log.lines
        return res

    def simplify(self, scen: dict):
        cfg = scen["config"]
        if scen.get("mode") == "widgets":
            return
        # plain return values
        if any(cfg["rets"]):
            c = dict(scen)
            c["config"] = dict(cfg, rets=[0] * len(cfg["rets"]))
            yield c
        for i, b in enumerate(scen.get("behaviours", [])):
            if len(b["do"]) > 1:
                for j in range(len(b["do"])):
                    c = dict(scen)
                    bs = [dict(x) for x in scen["behaviours"]]
                    bs[i]["do"] = b["do"][:j] + b["do"][j + 1 :]
                    c["behaviours"] = bs
                    yield c
        for i, op in enumerate(scen["ops"]):
            for fld in ("weak", "uargs", "uarg", "args"):
                if op.get(fld):
                    c = dict(scen)
                    ops = [dict(x) for x in scen["ops"]]
                    del ops[i][fld]
                    c["ops"] = ops
                    yield c


ENGINE = SignalsEngine()
