"""C15 - the terminal emulator survives any output and tracks a VT100   (engine `vterm`)

urwid.vterm.TermCanvas is fed the output of a scripted hosted program.  The environment decides
how that output is chunked across reads, where resizes land relative to the byte stream (also
between a UTF-8 lead byte and its continuation), when the scroll-back view is moved and when the
program hangs up.  Oracles: never raises, grid/cursor/region invariants after every chunk,
well-formed replies, chunking invariance, and cell-by-cell agreement with RefTerm (dialect V)
on the subset the property names.  DESIGN.md section 5, C15.
"""

from __future__ import annotations

import os
import random

from simkit import core
from simkit.core import EventLog
from simkit.refterm import DEFAULT, RefTerm
from simkit.runner import Engine, Result

P = "C15"


class _StubWidget:
    """What TermCanvas needs from its Terminal widget."""

    def __init__(self) -> None:
        from urwid.vterm import TermModes  # noqa: PLC0415

        self.term_modes = TermModes()
        self.replies: list[str] = []
        self.titles: list[str] = []
        self.beeps = 0

    def respond(self, s: str) -> None:
        self.replies.append(s)

    def set_title(self, t) -> None:
        self.titles.append(t)

    def beep(self) -> None:
        self.beeps += 1

    def leds(self, which) -> None:
        pass


# ---------------------------------------------------------------------------------------------
# stream grammar: pieces are (bytes, in_reference_subset)


def csi(body: str, fin: str) -> bytes:
    return f"\x1b[{body}{fin}".encode()


def gen_piece(rng: random.Random, enc: str, w: int, h: int, clean: bool, bright: bool = True, true: bool = True) -> tuple[bytes, bool, str]:  # noqa: C901, PLR0911, PLR0912
    r = rng.random()
    n = lambda hi: rng.choice([1, 1, 2, 3, hi, hi + 1, rng.randint(1, max(1, hi))])  # noqa: E731
    if r < 0.30:
        k = rng.choice([1, 2, 3, w - 1, w, w + 1, 2 * w + 1])
        # in UTF-8 mode some of the printable characters are two- and three-byte, single-width ones, so that
        # chunk boundaries and resizes land inside a character (double-width text stays outside the subset)
        multi = "éüßñøλж€" if enc == "utf8" and rng.random() < 0.3 else ""
        txt = "".join((rng.choice(multi) if multi and rng.random() < 0.4 else chr(rng.randrange(0x21, 0x7F))) if rng.random() < 0.85 else " " for _ in range(max(1, k)))
        return txt.encode(), True, "text"
    if r < 0.38:
        return rng.choice([b"\r", b"\n", b"\r\n", b"\b", b"\n\n"]), True, "c0"
    if r < 0.50:
        fin = rng.choice("HfABCDGd")
        if fin in "Hf":
            return csi(rng.choice([f"{n(h)};{n(w)}", f"{n(h)}", "", f";{n(w)}"]), fin), True, "cup"
        return csi(rng.choice(["", str(n(max(w, h)))]), fin), True, "cursor-" + fin
    if r < 0.58:
        _f = rng.choice("KJ")
        _m = rng.choice(["", "0", "1", "2"])
        return csi(_m, _f), True, f"erase-{_f}{_m or 0}"
    if r < 0.66:
        fin = rng.choice("@PX")
        return csi(rng.choice(["", str(n(w))]), fin), True, {"@": "ich", "P": "dch", "X": "ech"}[fin]
    if r < 0.72:
        fin = rng.choice("LM")
        # IL/DL leave the column unspecified between terminals: follow with CR
        return csi(rng.choice(["", str(n(h))]), fin) + b"\r", True, {"L": "il", "M": "dl"}[fin]
    if r < 0.77:
        t, b = sorted([rng.randint(1, h), rng.randint(1, h)])
        return csi(rng.choice([f"{t};{b}", "", f"{t}", f";{b}"]), "r"), True, "decstbm"
    if r < 0.82:
        _p = rng.choice([b"\x1bM", b"\x1bD", b"\x1bE"])
        return _p, True, {b"\x1bM": "ri", b"\x1bD": "ind", b"\x1bE": "nel"}[_p]
    if r < 0.90:
        ps = []
        for _ in range(rng.randint(1, 3)):
            q = rng.random()
            if q < 0.2:
                ps.append("0")
            elif q < 0.5:
                ps.append(str(rng.choice([*range(30, 38), *range(40, 48), 39, 49])))
            elif q < 0.6 and bright:
                ps.append(str(rng.choice([*range(90, 98), *range(100, 108)])))
            elif q < 0.7:
                ps.append(f"{rng.choice([38, 48])};5;{rng.randrange(256)}")
            elif q < 0.75 and true:
                ps.append(f"{rng.choice([38, 48])};2;{rng.randrange(256)};{rng.randrange(256)};{rng.randrange(256)}")
            else:
                ps.append(str(rng.choice([1, 4, 5, 7, 24, 25, 27])))
        return csi(";".join(ps), "m"), True, "sgr"
    if r < 0.93:
        return rng.choice([csi("5", "n"), csi("6", "n"), csi("", "c"), csi("0", "c")]), True, "query"
    if r < 0.95:
        # origin mode belongs to cursor addressing within scrolling regions: set and reset, also redundantly
        return csi("?6", rng.choice("hl")), True, "decom"
    if clean:
        return b"x", True, "text"
    # everything below is outside the reference subset (only invariants / no-raise are checked)
    q = rng.random()
    if q < 0.15:
        return rng.choice([b"\t", b"\x1bH", csi("", "g"), csi("3", "g"), b"\x1b#8", b"\x1b7", b"\x1b8", csi("", "s"), csi("", "u"), b"\x1bc"]), False, "other"
    if q < 0.3:
        mode = rng.choice(["?1", "?3", "?5", "?6", "?7", "?25", "?2004", "3", "4", "20", "?1049", "?47", "?"])
        return csi(mode, rng.choice("hl")), False, "other"
    if q < 0.4:
        return rng.choice([b"\x1b(0", b"\x1b(B", b"\x1b)0", b"\x1b(U", b"\x1b(K", b"\x0e", b"\x0f", b"\x1b%G", b"\x1b%@", csi("11", "m"), csi("10", "m"), csi("12", "m")]), False, "other"
    if q < 0.5:
        title = rng.choice(["t", "title é", "\xff\xfe", "a;b", ""])
        tb = title.encode("latin-1") if rng.random() < 0.5 else title.encode("utf-8")
        return b"\x1b]" + rng.choice([b"0;", b"2;", b";", b"1;", b"P1234567", b"R"]) + tb + rng.choice([b"\x07", b"\x1b\\", b""]), False, "other"
    if q < 0.53:
        # SGR colour selections with out-of-range, missing and surplus values
        v = lambda: rng.choice(["0", "255", "256", "999", "100000", "", "7", "99999999999"])  # noqa: E731
        body = rng.choice([f"38;2;{v()};{v()};{v()}", f"48;2;{v()};{v()};{v()}", f"38;5;{v()}", f"48;5;{v()}", "38;2", "38;5", f"38;{v()}", f"38;2;{v()};{v()}", f"38;3;{v()};{v()};{v()}", f"1;38;2;{v()};{v()};{v()};4"])
        return csi(body, "m"), False, "other"
    if q < 0.62:
        big = rng.choice(["100000", "99999", "65536", "0", "00", "-1", "1;2;3;4;5;6;7;8;9", ";;;;", "?", "1?"])
        return csi(big, rng.choice("@ABCDEFGHJKLMPXacdefghlmnqrsu`")), False, "other"
    if q < 0.7:
        return rng.choice([b"\x1b[", b"\x1b", b"\x1b[12;", b"\x1b]0;abc", b"\x1b(", b"\x9b5A", b"\x9b", b"\x18", b"\x1a", b"\x90", b"\x9d"]), False, "other"
    if q < 0.85:
        if enc == "utf8":
            return rng.choice(["é".encode(), "日本".encode(), "é".encode(), b"\xc3", b"\xe6\x97", b"\xf0\x9f\x98\x80", b"\xc0\x80", b"\xff", b"\x80", b"\xe6\x97\xa5"[:2] + b"A", b"\xf8\x88\x80\x80\x80"]), False, "other"
        return bytes(rng.randrange(0x80, 0x100) for _ in range(rng.randint(1, 3))), False, "other"
    return bytes(rng.randrange(256) for _ in range(rng.randint(1, 6))), False, "other"


class _Run:
    def __init__(self, scen: dict, res: Result) -> None:
        self.scen = scen
        self.res = res
        self.log = EventLog(keep=bool(os.environ.get("VERIF_KEEP_LOG")))
        self.tags: set[str] = set()
        self.fg_kind = "default"
        self.bg_kind = "default"
        self.true_sticky = False

    def track_sgr(self, data: bytes) -> None:
        """Follow the colour state to tag the two known findings of urwid's SGR state."""
        ps = data[2:-1].decode().split(";")
        had_bright = "bright" in (self.fg_kind, self.bg_kind)
        j = 0
        while j < len(ps):
            v = int(ps[j] or 0)
            kind = None
            if v in (38, 48):
                if j + 1 < len(ps) and ps[j + 1] == "2":
                    kind = "true"
                    j += 4
                elif j + 1 < len(ps) and ps[j + 1] == "5":
                    kind = "256"
                    j += 2
                if kind and j == len(ps) - 1 and int(ps[-1] or 0) == 0:
                    # urwid takes a trailing 0 for "reset" even when it is a colour component
                    self.tags.add("extended-colour-ending-in-0")
                if kind:
                    if v == 38:
                        self.fg_kind = kind
                    else:
                        self.bg_kind = kind
            elif 30 <= v <= 37:
                self.fg_kind = "basic"
            elif 40 <= v <= 47:
                self.bg_kind = "basic"
            elif 90 <= v <= 97:
                self.fg_kind = "bright"
            elif 100 <= v <= 107:
                self.bg_kind = "bright"
            elif v == 39:
                self.fg_kind = "default"
            elif v == 49:
                self.bg_kind = "default"
            elif v == 0:
                self.fg_kind = self.bg_kind = "default"
                had_bright = False
            if kind == "true":
                self.true_sticky = True
            elif self.true_sticky and (kind == "256" or 30 <= v <= 37 or 40 <= v <= 47 or 90 <= v <= 107):
                # AttrSpec has one colour depth for both channels, and urwid keeps the deepest one seen
                # until an SGR whose LAST parameter is 0
                self.tags.add("truecolour-mixed-with-indexed-colour")
            j += 1
        if ps and int(ps[-1] or 0) == 0:
            self.true_sticky = False
        if self.true_sticky and {self.fg_kind, self.bg_kind} & {"basic", "bright", "256"}:
            self.tags.add("truecolour-mixed-with-indexed-colour")
        if had_bright:
            # a bright colour (SGR 90-107) set by an earlier SGR is re-read as its dim twin
            self.tags.add("bright-colour-carried-to-next-sgr")

    def violate(self, clause, sig, msg=""):
        if clause == "C15.5" and ("colours-differ" in sig or "blank-background" in sig) and self.tags:
            sig += " [" + ",".join(sorted(self.tags)) + "]"
        self.res.violate(P, clause, sig, msg)
        self.log.add("violation", f"{clause} {sig}")

    # ------------------------------------------------------------------------------------
    def new_term(self, w: int, h: int):
        from urwid import vterm  # noqa: PLC0415

        wid = _StubWidget()
        return vterm.TermCanvas(w, h, wid), wid

    def invariants(self, t, what: str) -> bool:
        ok = True
        if len(t.term) != t.height:
            self.violate("C15.2", "grid-height-wrong", f"{what}: {len(t.term)} rows, height {t.height}")
            ok = False
        for y, row in enumerate(t.term):
            if len(row) != t.width:
                self.violate("C15.2", "grid-row-width-wrong", f"{what}: row {y} has {len(row)} cells, width {t.width}")
                ok = False
                break
        x, y = t.term_cursor
        if not (0 <= x < t.width and 0 <= y < t.height):
            self.violate("C15.2", "cursor-outside-grid", f"{what}: {t.term_cursor} in {t.width}x{t.height}")
            ok = False
        if not (0 <= t.scrollregion_start <= t.scrollregion_end < t.height):
            self.violate("C15.2", "scroll-region-outside-grid", f"{what}: {t.scrollregion_start}..{t.scrollregion_end} height {t.height}")
            ok = False
        if t.cursor is not None:
            cx, cy = t.cursor
            if not (0 <= cx < t.width and 0 <= cy < t.height):
                self.violate("C15.2", "canvas-cursor-outside-canvas", f"{what}: {t.cursor} in {t.width}x{t.height}")
                ok = False
        if ok:
            rows = list(t.content())
            if len(rows) != t.height or any(len(r) != t.width for r in rows):
                self.violate("C15.2", "content-shape-wrong", f"{what}: scrolling_up={t.scrolling_up}")
                ok = False
        return ok

    @staticmethod
    def cell_text(cell) -> str:
        return cell[2].decode("utf-8", "replace")

    def grid_text(self, t) -> list[str]:
        return ["".join(self.cell_text(c) for c in row) for row in t.term]

    # ------------------------------------------------------------------------------------
    def attr_key(self, spec):
        """(fg, bg, bold, underline, blink, reverse) of an urwid cell attribute."""
        if spec is None:
            return (DEFAULT, DEFAULT, False, False, False, False)

        def col(true_, high, basic, number, rgb):
            if true_:
                return ("rgb", *rgb)
            if high or basic:
                return ("i", number)
            return DEFAULT

        rgb = spec.get_rgb_values()
        fg = col(spec.foreground_true, spec.foreground_high, spec.foreground_basic, spec.foreground_number, rgb[0:3])
        bg = col(spec.background_true, spec.background_high, spec.background_basic, spec.background_number, rgb[3:6])
        return (fg, bg, bool(spec.bold), bool(spec.underline), bool(spec.blink), bool(spec.standout))

    @staticmethod
    def norm_color(c, bold: bool):
        """Fold 'bold + colour 0-7' and 'bright colour 8-15' (urwid stores the former as the latter),
        and 256-colour indexes below 16 (same palette slots)."""
        if c and c[0] == "i" and bold and c[1] < 8:
            return ("i", c[1] + 8)
        return c

    def compare_ref(self, t, ref: RefTerm, what: str) -> bool:
        for y in range(t.height):
            for x in range(t.width):
                cell = t.term[y][x]
                rc = ref.grid[y][x]
                ch = self.cell_text(cell)
                if ch != rc.ch:
                    self.violate("C15.5", f"text-differs-from-vt100 after={what}", f"cell ({x},{y}): urwid {ch!r} reference {rc.ch!r}\nurwid: {self.grid_text(t)}\nref:   {ref.dump()}")
                    return False
        if tuple(t.term_cursor) != (ref.x, ref.y):
            self.violate("C15.5", f"cursor-differs-from-vt100 after={what}", f"urwid {t.term_cursor} reference {(ref.x, ref.y)} pending={ref.wrap_pending}\nurwid: {self.grid_text(t)}")
            return False
        for y in range(t.height):
            for x in range(t.width):
                cell = t.term[y][x]
                rc = ref.grid[y][x]
                ua = self.attr_key(cell[0])
                ra = rc.attr
                if rc.ch == " " and (ua[5] or ra.reverse):
                    continue  # what an erase does under reverse video differs between terminals
                if rc.ch == " ":
                    # blanks: only the effective background is visible
                    ub = ua[0] if ua[5] else ua[1]
                    rb = ra.fg if ra.reverse else ra.bg
                    if self.norm_color(ub, ua[2] and ua[5]) != self.norm_color(rb, ra.bold and ra.reverse):
                        self.violate("C15.5", f"blank-background-differs-from-vt100 after={what}", f"cell ({x},{y}): urwid {ua} reference {ra!r}")
                        return False
                    continue
                uk = (self.norm_color(ua[0], ua[2]), ua[1], ua[2], ua[3], ua[4], ua[5])
                rk = (self.norm_color(ra.fg, ra.bold), ra.bg, ra.bold, ra.underline, ra.blink, ra.reverse)
                if uk != rk:
                    self.violate("C15.5", f"colours-differ-from-vt100 after={what}", f"cell ({x},{y}) {rc.ch!r}: urwid {uk} reference {rk}")
                    return False
        return True

    # ------------------------------------------------------------------------------------
    def run(self) -> str:  # noqa: C901, PLR0912, PLR0915
        import urwid  # noqa: PLC0415

        scen, res = self.scen, self.res
        cfg = scen["config"]
        enc = cfg["enc"]
        urwid.util.set_encoding("utf-8" if enc == "utf8" else "iso8859-1")
        w, h = cfg["size"]
        self.log.add("cfg", [enc, w, h])
        try:
            t, wid = self.new_term(w, h)
            ref = RefTerm(w, h, dialect="V", bce=True, scrollback=10000)
            ref_ok = True  # still inside the compared subset
            whole = bytearray()
            n_queries = 0
            decstbm_seen = False
            for op in scen["ops"]:
                k = op["op"]
                what = k
                try:
                    if k == "feed":
                        data = bytes.fromhex(op["hex"])
                        in_subset = bool(op.get("ref", False))
                        what = op.get("kind", "feed")
                        whole += data
                        cuts = sorted({c for c in op.get("cuts", []) if 0 < c < len(data)})
                        prev = 0
                        for c in [*cuts, len(data)]:
                            t.addstr(data[prev:c])
                            prev = c
                            if len(cuts):
                                res.fault("chunk_boundary")
                        self.log.add("feed", [op["hex"], cuts])
                        if in_subset and op.get("kind") == "sgr":
                            self.track_sgr(data)
                        if ref_ok and in_subset:
                            if b"r" in data and b"\x1b[" in data:
                                decstbm_seen = True
                            pend_before = ref.wrap_pending
                            ref.feed(data.decode("latin-1") if enc != "utf8" else data.decode("utf-8", "replace"))
                            # an operation other than printing, CR, LF, BS or absolute addressing executed
                            # on a pending wrap is not uniform between terminals: leave the subset
                            if pend_before and (
                                (data[:1] == b"\x1b" and data[-1:] not in (b"H", b"f", b"m", b"n", b"c")) or data[:1] == b"\n"
                            ):
                                ref_ok = False
                                res.probe("left_subset_pending_wrap_ambiguity")
                        elif not in_subset:
                            if ref_ok:
                                res.probe("left_subset_non_reference_sequence")
                            ref_ok = False
                        if data in (b"\x1b[5n", b"\x1b[6n", b"\x1b[c", b"\x1b[0c"):
                            n_queries += 1
                    elif k == "resize":
                        w2, h2 = op["size"]
                        t.resize(w2, h2)
                        ref_ok = False
                        res.fault("resize_between_bytes")
                        if t.utf8_eat_bytes is not None:
                            res.probe("resize_inside_utf8_sequence")
                        self.log.add("resize", [w2, h2])
                    elif k == "scrollback":
                        t.scroll_buffer(up=op.get("up", True), reset=op.get("reset", False), lines=op.get("lines"))
                        self.log.add("scrollback", [op.get("up", True), op.get("reset", False), op.get("lines")])
                    elif k == "focus":
                        t.has_focus = bool(op.get("on", True))
                        t.set_term_cursor()
                except Exception as e:  # noqa: BLE001
                    if core.raised_in_harness(e):
                        raise core.HarnessError(f"harness exception in op {k}: {core.format_exc(e)}") from e
                    self.violate("C15.1", f"{k}-raised:{core.exc_signature(e)}", f"after {what}: {core.format_exc(e)}")
                    break
                try:
                    inv_ok = self.invariants(t, f"after {what}")
                except Exception as e:  # noqa: BLE001
                    if core.raised_in_harness(e):
                        raise core.HarnessError(f"harness exception in invariants: {core.format_exc(e)}") from e
                    self.violate("C15.1", f"content-raised:{core.exc_signature(e)}", f"after {what}: {core.format_exc(e)}")
                    break
                if not inv_ok:
                    break
                self.res.states.add(f"{enc}/{what}/{t.parsestate}/{t.within_escape}/{t.is_rotten_cursor}/{t.scrollregion_start > 0 or t.scrollregion_end < t.height - 1}")
                if ref_ok and k == "feed":
                    res.probe("reference_compared")
                    if not self.compare_ref(t, ref, what):
                        break
                    # replies
                    if wid.replies != ref.replies:
                        self.violate("C15.3", f"reply-differs-from-vt100 after={what}", f"urwid {wid.replies!r} reference {ref.replies!r}")
                        break
            # 3: replies are well formed
            import re  # noqa: PLC0415

            for rp in wid.replies:
                m = re.fullmatch(r"\x1b\[0n|\x1b\[\?6c|\x1b\[(\d+);(\d+)R", rp)
                if not m:
                    self.violate("C15.3", "malformed-reply", repr(rp))
                    break
                if m.group(1) and not (1 <= int(m.group(1)) <= 100 and 1 <= int(m.group(2)) <= 100):
                    self.violate("C15.3", "cursor-report-out-of-range", repr(rp))
                    break
            # 6: scroll-back (full-screen region, no resize, still in subset)
            if ref_ok and not decstbm_seen and not res.violations:
                sb = ["".join(self.cell_text(c) for c in row) for row in t.scrollback_buffer]
                rsb = ["".join(c.ch for c in row) for row in ref.scrollback]
                if sb != rsb:
                    self.violate("C15.6", "scrollback-differs", f"urwid {sb!r} reference {rsb!r}")
                elif sb:
                    res.probe("scrollback_compared")
                    t.scroll_buffer(up=True, lines=len(sb))
                    top = ["".join(self.cell_text(c) for c in row) for row in list(t.content())[: len(sb)]]
                    if top[: min(len(sb), t.height)] != sb[: min(len(sb), t.height)]:
                        self.violate("C15.6", "scrollback-view-wrong", f"view {top!r} buffer {sb!r}")
                    t.scroll_buffer(reset=True)
            # 4: chunking invariance against one-shot delivery (no resize in the history)
            if not any(o["op"] in ("resize",) for o in scen["ops"]) and not res.violations:
                t2, wid2 = self.new_term(w, h)
                try:
                    t2.addstr(bytes(whole))
                    if t2.term != t.term or t2.term_cursor != t.term_cursor or list(t2.scrollback_buffer) != list(t.scrollback_buffer):
                        self.violate("C15.4", "chunking-changes-result", f"stream {bytes(whole).hex()}")
                    if wid2.replies != wid.replies:
                        self.violate("C15.4", "chunking-changes-replies", f"{wid.replies!r} vs {wid2.replies!r}")
                except Exception as e:  # noqa: BLE001
                    self.violate("C15.1", f"feed-raised:{core.exc_signature(e)}", core.format_exc(e))
        finally:
            urwid.util.set_encoding("utf-8")
        return self.log.digest()


class SimPtyMaster:
    """Master side of the pty of the hosted program: what the program wrote is read by urwid in
    os.read() chunks; what urwid writes (key encodings, DSR/CPR/DA replies) and every TIOCSWINSZ
    are recorded for the peer."""

    def __new__(cls, world):
        from simkit import world as W  # noqa: PLC0415

        class _Master(W.ByteQueue):
            kind = "pty"

            def __init__(self, w):
                super().__init__(w, "pty-master")
                self.nonblocking = True
                self.written = bytearray()
                self.winsizes: list[tuple[int, int]] = []
                self.reads_after_close = 0

            def write(self, data):
                self.written.extend(data)
                return len(data)

            def set_winsize(self, cols, rows):
                self.winsizes.append((cols, rows))

        return _Master(world)


class _FakeOs:
    """`os` attribute of urwid.vterm: no real process exists behind the fake pty."""

    def __init__(self, run):
        self._run = run

    def kill(self, pid, sig):
        self._run.kills.append(int(sig))

    def waitpid(self, pid, flags):
        return (pid, 0)

    def __getattr__(self, name):
        return getattr(os, name)


class _WidgetRun:
    """Layer B: the Terminal widget in a real MainLoop on the select loop; pty.fork is replaced by a
    scripted peer that writes chunks at scheduled times and may hang up."""

    def __init__(self, scen: dict, res: Result) -> None:
        self.scen = scen
        self.res = res
        self.kills: list[int] = []

    def violate(self, clause, sig, msg=""):
        self.res.violate(P, clause, sig + " layer=widget", msg)
        self.world.log.add("violation", f"{clause} {sig}")

    def run(self) -> str:  # noqa: C901, PLR0912, PLR0915
        import errno  # noqa: PLC0415
        import sys  # noqa: PLC0415

        import urwid  # noqa: PLC0415
        from simkit import loops  # noqa: PLC0415
        from simkit import world as W  # noqa: PLC0415
        from simkit.core import Livelock, Quiescent  # noqa: PLC0415
        from simkit.refterm import RefTerm as _RT  # noqa: PLC0415
        from urwid import vterm  # noqa: PLC0415
        from urwid.display import _posix_raw_display as prd  # noqa: PLC0415

        scen, res = self.scen, self.res
        cfg = scen["config"]
        w = self.world = W.World(tiebreak=cfg.get("tiebreak", ()))
        W.activate(w)
        saved = (vterm.pty, vterm.os, vterm.atexit, vterm.time, vterm.selectors, sys.stdin)
        urwid.util.set_encoding("utf-8")
        box = None
        try:
            cols, rows = cfg["size"]
            tty = W.SimTTY(w, "tty", cols, rows)
            term_out = _RT(cols, rows)
            screen = prd.Screen(input=W.SimTTYIn(tty), output=W.SimTTYOut(w, tty, term_out))
            master = SimPtyMaster(w)
            run = self

            class _Pty:
                @staticmethod
                def fork():
                    return 4242, master.fd

            class _Atexit:
                @staticmethod
                def register(fn, *a, **k):
                    return fn

            vterm.pty, vterm.os, vterm.atexit = _Pty, _FakeOs(run), _Atexit
            vterm.time = W.FakeTimeModule(W.current)
            vterm.selectors = W.FakeSelectorsModule()
            sys.stdin = W.SimTTYIn(tty)
            box = loops.make_loop("select", w)
            closed = []
            ml = urwid.MainLoop(urwid.SolidFill(" "), screen=screen, event_loop=box.loop, handle_mouse=False)
            term = vterm.Terminal(["fake-program"], main_loop=ml, encoding="utf-8")
            ml.widget = term
            urwid.connect_signal(term, "closed", lambda *_a: closed.append(w.rel()))
            sizes = [(cols, rows)]
            # the hosted program and the user
            t = 0.25
            whole = bytearray()
            n_feed_calls = [0]
            orig_feed = term.feed

            def feed():
                n_feed_calls[0] += 1
                if term.terminated:
                    master.reads_after_close += 1
                return orig_feed()

            term.feed = feed
            for op in scen["ops"]:
                t += float(op.get("dt", 1 / 1024))
                k = op["op"]
                if k == "out":
                    data = bytes.fromhex(op["hex"])
                    whole += data
                    w.schedule(t, f"prog>{op['hex'][:24]}", lambda data=data: master.feed(data))
                elif k == "spurious":
                    w.schedule(t, "spurious-wakeup", lambda: setattr(master, "spurious", master.spurious + 1))
                elif k == "resize":

                    def rz(c=op["size"][0], r=op["size"][1]):
                        tty.cols, tty.rows = c, r
                        term_out.resize(c, r)
                        sizes.append((c, r))
                        import signal as _s  # noqa: PLC0415

                        h = _s.getsignal(_s.SIGWINCH)
                        if callable(h):
                            h(_s.SIGWINCH, None)

                    w.schedule(t, f"sigwinch {op['size']}", rz)
                    res.fault("resize_between_chunks")
                elif k == "key":
                    w.schedule(t, f"tty<{op['hex']}", lambda d=bytes.fromhex(op["hex"]): tty.feed(d))
                elif k == "hangup":

                    def hang(mode=op.get("mode", "eio")):
                        if mode == "eio":
                            master.hangup_errno = errno.EIO
                        else:
                            master.eof = True
                        res.fault(f"hangup_{mode}")

                    w.schedule(t, f"hangup {op.get('mode', 'eio')}", hang)
            t_end = t + 1.0

            def quit_(loop, data):
                raise urwid.ExitMainLoop

            ml.set_alarm_in(t_end, quit_)
            master.read_caps = list(cfg.get("read_caps", []))
            w.log.add("cfg", [cols, rows, len(scen["ops"])])
            exc = None
            try:
                ml.run()
            except Quiescent:
                self.violate("C15.7", "loop-went-quiescent", "")
            except Livelock as e:
                self.violate("C15.7", "livelock-after-hangup" if (master.eof or master.hangup_errno) else "livelock", str(e))
            except Exception as e:  # noqa: BLE001
                exc = e
            if exc is not None:
                if core.raised_in_harness(exc):
                    raise core.HarnessError(f"harness exception: {core.format_exc(exc)}") from exc
                self.violate("C15.1", f"session-raised:{core.exc_signature(exc)}", core.format_exc(exc))
            else:
                hung = master.eof or master.hangup_errno is not None
                if hung:
                    if len(closed) != 1:
                        self.violate("C15.7", "closed-not-emitted-exactly-once", f"{len(closed)} times")
                    if master.reads_after_close:
                        self.violate("C15.7", "pty-read-after-hangup", f"{master.reads_after_close} feed() calls after termination")
                    if not term.terminated:
                        self.violate("C15.7", "not-terminated-after-hangup", "")
                    res.probe("hangup_handled")
                elif closed:
                    self.violate("C15.7", "closed-emitted-without-hangup", "")
                # window size reported to the program follows the widget's size (terminate() reports 0x0)
                ws = [s for s in master.winsizes if s != (0, 0)]
                if ws and ws[-1] != sizes[-1] and not hung:
                    self.violate("C15.7", "TIOCSWINSZ-differs-from-widget-size", f"program told {ws[-1]}, terminal is {sizes[-1]}")
                # everything the program wrote reached the emulator: compare with one-shot delivery
                if not hung and len(sizes) == 1 and term.term is not None:
                    ref_canvas = vterm.TermCanvas(cols, rows, _StubWidget())
                    ref_canvas.addstr(bytes(whole))
                    if ref_canvas.term != term.term.term or ref_canvas.term_cursor != term.term.term_cursor:
                        self.violate("C15.4", "read-chunking-changes-result", f"stream {bytes(whole).hex()[:200]}")
                    else:
                        res.probe("widget_stream_compared")
                # replies reach the program
                if term.term is not None and not hung and len(sizes) == 1:
                    want = "".join(_StubReplies(bytes(whole), cols, rows))
                    got = bytes(master.written).decode("latin-1")
                    if want and want not in got and not any(o["op"] == "key" for o in scen["ops"]):
                        self.violate("C15.3", "replies-not-written-to-the-program", f"want {want!r} got {got!r}")
            res.sim_time += w.rel()
            for kf, v in w.faults.items():
                res.fault(kf, v)
            res.probe("widget_layer_run")
        finally:
            vterm.pty, vterm.os, vterm.atexit, vterm.time, vterm.selectors, sys.stdin = saved
            if box is not None:
                box.cleanup()
            W.deactivate()
            urwid.util.set_encoding("utf-8")
        return w.log.digest()


def _StubReplies(stream: bytes, cols: int, rows: int) -> list[str]:  # noqa: N802
    """Replies a TermCanvas fed the whole stream in one go produces."""
    from urwid import vterm  # noqa: PLC0415

    wid = _StubWidget()
    c = vterm.TermCanvas(cols, rows, wid)
    c.addstr(stream)
    return wid.replies


class VtermEngine(Engine):
    prop = P
    name = "vterm"
    level = "exploration"
    tiers = {"quick": 100000, "thorough": 5000000}
    rule = (
        "seeded program output (1-25 pieces: printable runs long enough to wrap, CR/LF/BS, CUP/HVP/CUU/CUD/CUF/CUB/CHA/VPA, "
        "EL/ED all modes, ICH/DCH/ECH, IL/DL, DECSTBM, IND/RI/NEL, SGR colours and styles, DSR/CPR/DA queries; outside the "
        "reference subset: tabs, modes, charsets, OSC, DECALN, save/restore, huge/zero/missing/negative parameters, truncated "
        "sequences, C1 bytes, invalid and truncated UTF-8, random bytes) on terminals 1x1..20x8, utf-8 and narrow encodings, "
        "chunked at sampled byte boundaries, with resizes at any byte boundary (incl. to 1x1 and between a UTF-8 lead byte and its "
        "continuation), scroll-back moves and focus changes in between. Non-trivial: the stream left the ground parser state at a "
        "chunk boundary, or a resize or >= 1 reference comparison happened; distinct = distinct event-log digests among those."
    )
    assumptions = [
        "RefTerm dialect V (simkit/refterm.py) is the reference VT100; comparison stops (invariants continue) once a stream leaves the named subset, after a resize, "
        "or when a non-printing operation other than CR/LF/BS/CUP/SGR/queries is executed on a pending wrap (not uniform between terminals)",
        "IL/DL are followed by CR in generated streams (column after IL/DL differs between terminals)",
        "blank cells are compared by effective background only; bold+colour 0-7 and bright colours 8-15 are folded",
        "numeric parameters are capped at 10^5 (ICH/DCH/IL/DL loop once per unit)",
        "layer B (12% of the runs): the Terminal widget runs in a real MainLoop on the select loop with pty.fork, os.kill/waitpid and atexit replaced; the line discipline of the pty is not modelled",
    ]
    components = {"real": ["urwid.vterm.TermCanvas (parser, CSI table, grid operations, scroll-back, content)", "TermModes, TermCharset"], "stub": ["Terminal widget (respond/set_title/beep/leds)", "hosted program (scripted byte stream)"]}
    required_probes = ("reference_compared", "scrollback_compared", "resize_inside_utf8_sequence", "widget_layer_run", "hangup_handled", "widget_stream_compared")
    reducible = ("ops",)

    def generate(self, rng: random.Random, tier: str) -> dict:
        if rng.random() < 0.12:
            return self.generate_widget(rng)
        enc = rng.choice(["utf8", "utf8", "narrow"])
        w, h = rng.choice([(1, 1), (2, 2), (5, 3), (10, 4), (20, 8), (8, 1), (1, 6), (rng.randint(1, 20), rng.randint(1, 8))])
        clean = rng.random() < 0.55
        # SGR 90-107 and 24-bit colours hit two known findings of the colour state: only in some runs
        bright, true = rng.random() < 0.3, rng.random() < 0.3
        ops = []
        for _ in range(rng.randint(1, 25)):
            r = rng.random()
            if r < 0.85:
                data, in_ref, kind = gen_piece(rng, enc, w, h, clean, bright, true)
                op = {"op": "feed", "hex": data.hex(), "ref": in_ref, "kind": kind}
                if len(data) > 1 and rng.random() < 0.4:
                    op["cuts"] = sorted(rng.sample(range(1, len(data)), min(len(data) - 1, rng.randint(1, 2))))
                ops.append(op)
            elif r < 0.92 and not clean:
                ops.append({"op": "resize", "size": list(rng.choice([(1, 1), (w, h), (w + 3, h), (w, h + 2), (max(1, w - 2), max(1, h - 1)), (rng.randint(1, 20), rng.randint(1, 8))]))})
            elif r < 0.97:
                ops.append({"op": "scrollback", "up": rng.random() < 0.6, "reset": rng.random() < 0.2, "lines": rng.choice([None, 1, 3, 100])})
            else:
                ops.append({"op": "focus", "on": rng.random() < 0.7})
        if not clean and rng.random() < 0.3 and enc == "utf8":
            # a resize between a lead byte and its continuation
            i = rng.randrange(len(ops) + 1)
            ops[i:i] = [{"op": "feed", "hex": "e6", "ref": False}, {"op": "resize", "size": [max(1, w - 1), h]}, {"op": "feed", "hex": "97a5", "ref": False}]
        return {"config": {"enc": enc, "size": [w, h]}, "ops": ops}

    def generate_widget(self, rng: random.Random) -> dict:
        """Layer B scenario: Terminal widget in a MainLoop; the program writes chunks, may hang up."""
        w, h = rng.choice([(10, 4), (20, 8), (5, 3), (rng.randint(2, 20), rng.randint(2, 8))])
        ops = []
        for _ in range(rng.randint(1, 12)):
            r = rng.random()
            dt = rng.choice([0.0, 0.0, 1 / 1024, 0.125, 0.5])
            if r < 0.7:
                data, _in_ref, _kind = gen_piece(rng, "utf8", w, h, rng.random() < 0.5)
                ops.append({"op": "out", "hex": data.hex(), "dt": dt})
            elif r < 0.78:
                ops.append({"op": "spurious", "dt": dt})
            elif r < 0.86:
                ops.append({"op": "resize", "size": [rng.randint(2, 20), rng.randint(2, 8)], "dt": dt})
            elif r < 0.93:
                ops.append({"op": "key", "hex": rng.choice(["61", "0d", "1b5b41", "7f"]), "dt": dt})
            else:
                ops.append({"op": "hangup", "mode": rng.choice(["eio", "eof"]), "dt": dt})
                break
        cfg = {"mode": "widget", "size": [w, h], "tiebreak": [rng.randrange(4) for _ in range(6)]}
        if rng.random() < 0.4:
            cfg["read_caps"] = [rng.choice([0, 1, 2, 5]) for _ in range(rng.randint(1, 8))]
        return {"config": cfg, "ops": ops}

    def execute(self, scen: dict) -> Result:
        res = Result()
        if scen["config"].get("mode") == "widget":
            wr = _WidgetRun(scen, res)
            res.digest = wr.run()
            res.nontrivial = True
            if os.environ.get("VERIF_KEEP_LOG"):
                res.info["log"] = wr.world.log.lines
            return res
        run = _Run(scen, res)
        res.digest = run.run()
        if res.probes.get("reference_compared") or res.faults.get("resize_between_bytes") or res.faults.get("chunk_boundary"):
            res.nontrivial = True
        if run.log.keep:
            res.info["log"] = run.log.lines
        return res

    def simplify(self, scen: dict):
        if scen["config"].get("mode") == "widget":
            if scen["config"].get("read_caps"):
                yield dict(scen, config={k: v for k, v in scen["config"].items() if k != "read_caps"})
            return
        for i, op in enumerate(scen["ops"]):
            if op["op"] == "feed":
                if op.get("cuts"):
                    ops = list(scen["ops"])
                    ops[i] = {k: v for k, v in op.items() if k != "cuts"}
                    yield dict(scen, ops=ops)
                data = bytes.fromhex(op["hex"])
                if len(data) > 1 and data[:1] != b"\x1b":
                    for cand in (data[: len(data) // 2], data[len(data) // 2 :], data[:-1]):
                        if cand:
                            ops = list(scen["ops"])
                            ops[i] = dict(op, hex=cand.hex(), cuts=[])
                            yield dict(scen, ops=ops)


ENGINE = VtermEngine()
