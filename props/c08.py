"""C08 - Container focus is always a valid child and input follows the focus path (engine `widgets-containers`)

Environment-decided dimension: the interleaving of two actors - the user (keys, button-1 presses)
and the application (contents edits, focus_position / set_focus_path writes, header/footer
replacement) - and of resizes and renders.  There is no clock and no fault here; the simulator
contributes seeded search over merged histories, step invariants on every container of the tree,
recording leaves that observe what input / focus flags reach them, replay and shrinking.

All widgets of the tree are real urwid containers; only the leaves are harness widgets ("recording
leaves": selectable or not, accept or reject keys by script, log every keypress / mouse_event /
render they receive together with whether they were on the root's focus path at that moment).
"""

from __future__ import annotations

import os
import random

from simkit import core
from simkit.core import EventLog
from simkit.runner import Engine, Result

P = "C08"
ARROWS = ("up", "down", "left", "right")
PLAIN = ("a", "x", "Q")  # keys without a binding in urwid's default command map
KEYS = [*ARROWS, "page up", "page down", "home", "end", "tab", " ", "enter", *PLAIN]
LIST_KINDS = ("Pile", "Columns", "GridFlow", "ListBox")
SELECTABLE_BY_CONTENTS = ("Pile", "Columns", "GridFlow")
FLOW_KINDS = ("Pile", "Columns", "GridFlow")
BOX_KINDS = ("ListBox", "Frame", "Overlay")
FRAME_PARTS = ("body", "header", "footer")
COLS = [1, 3, 8, 20, 40]
ROWS = [1, 2, 5, 10, 24]
EDITS = ("insert", "append", "extend", "iadd", "delete", "delslice", "setslice", "clear", "clear_del", "clear_assign", "set", "replace", "pop", "reverse", "remove", "sort", "imul")

_LEAF_CLASSES = None


def leaf_classes():
    """The recording leaves (created lazily: urwid must come from the bootstrapped repository)."""
    global _LEAF_CLASSES  # noqa: PLW0603
    if _LEAF_CLASSES is not None:
        return _LEAF_CLASSES
    import urwid  # noqa: PLC0415

    class FlowLeaf(urwid.Widget):
        no_cache = ["render", "rows"]  # noqa: RUF012
        _sizing = frozenset(["flow"])
        box = False

        def __init__(self, run, spec) -> None:
            super().__init__()
            self.run = run
            self.lid = int(spec["id"])
            self.sel = bool(spec.get("sel", True))
            self.handles = frozenset(spec.get("keys", ()))
            self.nrows = max(1, int(spec.get("rows", 1)))
            self.mouse_rv = bool(spec.get("mouse", False))
            self.act = spec.get("act")
            self.acted = False
            if spec.get("cur") and self.sel:
                # a leaf with a cursor (like an Edit): containers then take their cursor / preferred-column paths when
                # the focus moves onto it.  "mc": False refuses the position it is offered.
                self.cx = int(spec.get("cx", 0))
                self.accepts = bool(spec.get("mc", True))
                self.get_cursor_coords = self._get_cursor_coords
                self.get_pref_col = self._get_pref_col
                self.move_cursor_to_coords = self._move_cursor_to_coords

        def _get_cursor_coords(self, size):
            cols, rows = self._dims(size)
            if cols <= 0 or rows <= 0:
                return None
            return (min(self.cx, cols - 1), 0)

        def _get_pref_col(self, size):
            return self.cx

        def _move_cursor_to_coords(self, size, col, row):
            self.run.leaf_event("cursor", self, tuple(size), repr(col), int(row))
            if not self.accepts:
                return False
            cols, _rows = self._dims(size)
            if col == "left":
                self.cx = 0
            elif col == "right":
                self.cx = max(0, cols - 1)
            else:
                self.cx = max(0, min(int(col), max(0, cols - 1)))
            return True

        def _with_cursor(self, canv, size, focus):
            if focus and hasattr(self, "cx"):
                cc = self._get_cursor_coords(size)
                if cc is not None:
                    canv = urwid.CompositeCanvas(canv)
                    canv.cursor = cc
            return canv

        def _repr_words(self):
            return [f"leaf{self.lid}", "sel" if self.sel else "unsel"]

        def selectable(self) -> bool:
            return self.sel

        def rows(self, size, focus=False) -> int:
            return self.nrows

        def _dims(self, size):
            cols = max(0, int(size[0])) if len(size) > 0 else 1
            rows = max(0, int(size[1])) if len(size) > 1 else self.nrows
            return cols, rows

        def render(self, size, focus=False):
            cols, rows = self._dims(size)
            self.run.leaf_event("render", self, tuple(size), bool(focus))
            return self._with_cursor(urwid.SolidCanvas("abcdefghijklmnopqrstuvwxyz"[self.lid % 26], cols, rows), size, focus)

        def keypress(self, size, key):
            handled = key in self.handles
            self.run.leaf_event("key", self, tuple(size), key, handled)
            if handled and self.act and not self.acted:
                # the handler edits the container it sits in while the key is still being dispatched through that
                # container (a row's "delete" button removes the row; "add" inserts one after it)
                self.acted = True
                self.run.leaf_action(self, self.act)
            return None if handled else key

        def mouse_event(self, size, event, button, col, row, focus):
            self.run.leaf_event("mouse", self, tuple(size), int(col), int(row), bool(focus))
            return self.mouse_rv

    class BoxLeaf(FlowLeaf):
        no_cache = ["render", "rows"]  # noqa: RUF012
        _sizing = frozenset(["box"])
        box = True

        def render(self, size, focus=False):
            cols, rows = self._dims(size)
            self.run.leaf_event("render", self, tuple(size), bool(focus))
            return self._with_cursor(urwid.SolidCanvas("ABCDEFGHIJKLMNOPQRSTUVWXYZ"[self.lid % 26], cols, rows), size, focus)

    _LEAF_CLASSES = (FlowLeaf, BoxLeaf)
    return _LEAF_CLASSES


_MINIMAL_WALKER = None


def minimal_walker_class():
    global _MINIMAL_WALKER  # noqa: PLW0603
    if _MINIMAL_WALKER is None:
        import urwid  # noqa: PLC0415

        class MinimalWalker(urwid.ListWalker):
            def __init__(self, items):
                self.items = list(items)
                self.at = 0

            def get_focus(self):
                return (self.items[self.at], self.at) if self.items else (None, None)

            def set_focus(self, position):
                if isinstance(position, bool) or not isinstance(position, int) or not 0 <= position < len(self.items):
                    err = IndexError(f"no item at position {position!r}")
                    err.verif_application_side = True
                    raise err
                self.at = position
                self._modified()

            def get_next(self, position):
                p = position + 1
                return (self.items[p], p) if 0 <= p < len(self.items) else (None, None)

            def get_prev(self, position):
                p = position - 1
                return (self.items[p], p) if 0 <= p < len(self.items) else (None, None)

        _MINIMAL_WALKER = MinimalWalker
    return _MINIMAL_WALKER


def is_minimal(base) -> bool:
    return _MINIMAL_WALKER is not None and isinstance(getattr(base, "body", None), _MINIMAL_WALKER)


def _ov_size(v):
    """Overlay width / height: a percentage (>= 10) or a fixed number of cells (< 10)."""
    return ("relative", v) if v >= 10 else v


_CLICK = object()


class Node:
    """Model of one position of the tree: `w` is what the parent holds (possibly a Filler /
    BoxAdapter around `base`), `kids` mirrors the children (Frame: [body, header, footer] with None
    for a missing part; Overlay: [bottom, top])."""

    __slots__ = ("base", "emptied", "kids", "kind", "parent", "spec", "w")

    def __init__(self, spec, kind, w, base, kids=()):
        self.spec = spec
        self.kind = kind
        self.w = w
        self.base = base
        self.kids = list(kids)
        self.parent = None
        self.emptied = False
        for k in self.kids:
            if k is not None:
                k.parent = self


def spec_kind(spec: dict) -> str:
    return spec["k"]


def walk_containers(n: Node):
    if n is None or n.kind == "leaf":
        return
    yield n
    for k in n.kids:
        yield from walk_containers(k)


def walk_leaves(n: Node):
    if n is None:
        return
    if n.kind == "leaf":
        yield n
        return
    for k in n.kids:
        yield from walk_leaves(k)


class _Run:
    def __init__(self, scen: dict, res: Result) -> None:
        self.scen = scen
        self.res = res
        self.log = EventLog(keep=bool(os.environ.get("VERIF_KEEP_LOG")))
        self.events: list[tuple] = []
        self.root: Node | None = None
        self.size = (20, 10)
        self.seen: set[tuple[str, str]] = set()
        self.saved_path = None
        self.user_steps = 0
        self.app_steps = 0

    # ------------------------------------------------------------------ plumbing
    def violate(self, clause, sig, msg="") -> None:
        if (clause, sig) in self.seen:
            return
        self.seen.add((clause, sig))
        self.res.violate(P, clause, sig, msg)
        self.log.add("violation", f"{clause} {sig}")

    def guard(self, e: BaseException, what: str) -> None:
        """Re-raise as HarnessError when the exception is ours, otherwise return (it is urwid's)."""
        if isinstance(e, core.HarnessError):
            raise e
        if core.raised_in_harness(e):
            raise core.HarnessError(f"harness exception in {what}: {core.format_exc(e)}") from e

    def read(self, fn, what: str):
        """('ok', value) or ('exc', exception) for one public read on urwid."""
        try:
            return ("ok", fn())
        except Exception as e:  # noqa: BLE001
            self.guard(e, what)
            return ("exc", e)

    def leaf_event(self, kind, leaf, size, *detail) -> None:
        self.events.append((kind, leaf, size, detail, self.on_path(leaf)))

    def leaf_action(self, leaf, act: str) -> None:
        """A contents edit made from inside a leaf's key handler (re-entrant: the key is still travelling up)."""
        node = next((n for n in walk_leaves(self.root) if n.base is leaf), None)
        if node is None or node.parent is None or node.parent.kind not in LIST_KINDS or is_minimal(node.parent.base):
            return
        par = node.parent
        b = par.base
        L = b.body if par.kind == "ListBox" else b.contents
        idx = par.kids.index(node)
        if act == "remove_self":
            del L[idx]
            del par.kids[idx]
        else:
            new = self.build({"k": "leaf", "id": 500 + leaf.lid % 100, "sel": True, "keys": [], "rows": 1}, "flow")
            new.parent = par
            L.insert(idx + 1, new.w if par.kind == "ListBox" else (new.w, b.options()))
            par.kids.insert(idx + 1, new)
        self.reentrant_edits = getattr(self, "reentrant_edits", 0) + 1
        self.res.fault("contents_edit_inside_key_handler")
        self.log.add("reentrant", [leaf.lid, act, par.kind])
        self.structure_changed()

    def on_path(self, leaf):
        """Is this leaf on the root's focus path right now (public API: get_focus_widgets)?"""
        try:
            ws = self.root.base.get_focus_widgets()
        except Exception as e:  # noqa: BLE001
            self.guard(e, "get_focus_widgets")
            return f"exc:{type(e).__name__}"
        return any(w is leaf or getattr(w, "base_widget", w) is leaf for w in ws)

    # ------------------------------------------------------------------ building
    def build(self, spec: dict, slot: str) -> Node:  # noqa: C901, PLR0912
        import urwid  # noqa: PLC0415

        k = spec_kind(spec)
        if k == "leaf":
            flow_cls, box_cls = leaf_classes()
            w = (box_cls if slot == "box" else flow_cls)(self, spec)
            return Node(spec, "leaf", self.decorate(w, spec), w)
        if k == "Pile":
            kids = [self.build(s, "flow") for s in spec.get("kids", [])]
            fp = spec.get("fp")
            if spec.get("ctor") and fp is not None and kids:
                # the initial focus given to the constructor (position or widget) instead of assigned afterwards
                at = fp % len(kids)
                base = urwid.Pile([c.w for c in kids], focus_item=at if spec["ctor"] == 1 else kids[at].w)
            else:
                base = urwid.Pile([c.w for c in kids])
                if fp is not None and kids:
                    base.focus_position = fp % len(kids)
        elif k == "Columns":
            kids = [self.build(s, "flow") for s in spec.get("kids", [])]
            items = []
            for i, c in enumerate(kids):
                gw = (spec.get("given") or [0])[i % len(spec.get("given") or [0])]
                # gw > 0: ('given', gw); gw == 0: default weight; gw < 0: ('given', 0), a column that is never displayed
                items.append((max(gw, 0), c.w) if gw else c.w)
            fp = spec.get("fp")
            if spec.get("ctor") and fp is not None and kids:
                at = fp % len(kids)
                base = urwid.Columns(items, dividechars=spec.get("div", 0), focus_column=at if spec["ctor"] == 1 else kids[at].w)
            else:
                base = urwid.Columns(items, dividechars=spec.get("div", 0))
                if fp is not None and kids:
                    base.focus_position = fp % len(kids)
        elif k == "GridFlow":
            kids = [self.build(s, "flow") for s in spec.get("kids", [])]
            fp = spec.get("fp")
            if spec.get("ctor") and fp is not None and kids:
                at = fp % len(kids)
                base = urwid.GridFlow([c.w for c in kids], spec.get("cw", 5), spec.get("hsep", 1), spec.get("vsep", 0), spec.get("ga", "left"), focus=at if spec["ctor"] == 1 else kids[at].w)
            else:
                base = urwid.GridFlow([c.w for c in kids], spec.get("cw", 5), spec.get("hsep", 1), spec.get("vsep", 0), spec.get("ga", "left"))
                if fp is not None and kids:
                    base.focus_position = fp % len(kids)
        elif k == "ListBox":
            kids = [self.build(s, "flow") for s in spec.get("kids", [])]
            wk = spec.get("walker", "focus")
            if wk == "minimal" and kids:
                # a walker that implements the documented ListWalker interface only (get_focus / set_focus / get_next /
                # get_prev): not sized, not indexable, no positions() - like urwid's own TreeWalker
                base = urwid.ListBox(minimal_walker_class()([c.w for c in kids]))
            elif wk == "simple":
                base = urwid.ListBox(urwid.SimpleListWalker([c.w for c in kids]))
            else:
                base = urwid.ListBox(urwid.SimpleFocusListWalker([c.w for c in kids]))
            fp = spec.get("fp")
            if fp is not None and kids:
                base.focus_position = fp % len(kids)
        elif k == "Frame":
            body = self.build(spec["body"], "box")
            header = self.build(spec["header"], "flow") if spec.get("header") else None
            footer = self.build(spec["footer"], "flow") if spec.get("footer") else None
            kids = [body, header, footer]
            part = spec.get("fp", "body")
            if (part == "header" and header is None) or (part == "footer" and footer is None):
                part = "body"
            base = urwid.Frame(body.w, header=header.w if header else None, footer=footer.w if footer else None, focus_part=part)
        elif k == "Overlay":
            bottom = self.build(spec["bottom"], "box")
            top = self.build(spec["top"], "box")
            kids = [bottom, top]
            base = urwid.Overlay(top.w, bottom.w, spec.get("al", "center"), _ov_size(spec.get("pw", 60)), spec.get("val", "middle"), _ov_size(spec.get("ph", 60)))
        else:
            raise core.HarnessError(f"unknown widget spec {k!r}")
        w = base
        if slot == "box" and k in FLOW_KINDS:
            w = urwid.Filler(base, valign="top")
        elif slot == "flow" and k in BOX_KINDS:
            w = urwid.BoxAdapter(base, spec.get("h", 3))
        return Node(spec, k, self.decorate(w, spec), base, kids)

    @staticmethod
    def decorate(w, spec):
        """Decoration widgets between a container and its child (spec key "deco"): focus paths, key routing and the
        focus flag must pass through them unchanged (containers look at base_widget)."""
        import urwid  # noqa: PLC0415

        for d in spec.get("deco", ()):
            if d == "attrmap":
                w = urwid.AttrMap(w, "plain", "focused")
            elif d == "padding":
                w = urwid.Padding(w, left=0, right=0)
            elif d == "placeholder":
                w = urwid.WidgetPlaceholder(w)
        return w

    # ------------------------------------------------------------------ fresh replica (history independence)
    def clone_widgets(self, n: Node, sink):
        """A brand-new widget tree with the same structure, options and focus positions as the live one (read
        through the public API), with fresh recording leaves that report to `sink`.  Returns the widget to put
        where n.w sits, or None when the live state cannot be read."""
        import urwid  # noqa: PLC0415

        if n.kind == "leaf":
            return self.decorate(type(n.base)(sink, n.spec), n.spec)
        live = n.base
        kids = []
        for c in n.kids:
            if c is None:
                kids.append(None)
                continue
            w = self.clone_widgets(c, sink)
            if w is None:
                return None
            kids.append(w)
        if n.kind in ("Pile", "Columns", "GridFlow"):
            if len(live.contents) != len(kids):
                return None
            if n.kind == "Pile":
                base = urwid.Pile([])
            elif n.kind == "Columns":
                base = urwid.Columns([], dividechars=live.dividechars, min_width=live.min_width)
            else:
                base = urwid.GridFlow([], live.cell_width, live.h_sep, live.v_sep, live.align)
            base.contents = [(w, live.contents[i][1]) for i, w in enumerate(kids)]
            if kids:
                base.focus_position = live.focus_position
        elif n.kind == "ListBox":
            if (len(live.body.items) if is_minimal(live) else len(live.body)) != len(kids):
                return None
            base = urwid.ListBox(minimal_walker_class()(kids) if is_minimal(live) else urwid.SimpleFocusListWalker(kids))
            if kids:
                base.focus_position = live.focus_position
        elif n.kind == "Frame":
            body, header, footer = kids
            base = urwid.Frame(body, header=header, footer=footer, focus_part=live.focus_position)
        elif n.kind == "Overlay":
            bottom, top = kids
            base = urwid.Overlay(top, bottom, n.spec.get("al", "center"), _ov_size(n.spec.get("pw", 60)), n.spec.get("val", "middle"), _ov_size(n.spec.get("ph", 60)))
        else:
            return None
        inner = n.w
        while isinstance(inner, (urwid.AttrMap, urwid.Padding, urwid.WidgetPlaceholder)):
            inner = inner.original_widget
        if inner is n.base:
            return self.decorate(base, n.spec)
        if isinstance(inner, urwid.Filler):
            return self.decorate(urwid.Filler(base, valign="top"), n.spec)
        if isinstance(inner, urwid.BoxAdapter):
            return self.decorate(urwid.BoxAdapter(base, inner.height), n.spec)
        return None

    def listbox_item_height_depends_on_inner_focus(self) -> bool:
        """True when some ListBox item is a Columns / GridFlow / Pile whose number of rows at the current width changes
        with ITS OWN focus position (a Columns too narrow to show all columns shows those around its focus): ListBox
        measures an item, then moves the focus inside it (move_cursor_to_coords / first selectable), and the height it
        measured is stale.  Evaluated on a throw-away replica of the item."""

        class Sink:
            def leaf_event(self, *a):
                pass

            def leaf_action(self, *a):
                pass

        cols = self.size[0]
        try:
            for n in walk_containers(self.root):
                if n.kind != "ListBox":
                    continue
                for c in n.kids:
                    if c is None or c.kind not in ("Columns", "GridFlow", "Pile") or not c.kids:
                        continue
                    w = self.clone_widgets(c, Sink())
                    if w is None:
                        continue
                    heights = set()
                    for p in range(len(c.kids)):
                        w.focus_position = p
                        for f in (False, True):
                            heights.add(w.rows((cols,), f))
                    if len(heights) > 1:
                        return True
        except Exception as e:  # noqa: BLE001
            self.guard(e, "item heights")
        return False

    @staticmethod
    def gridflow_display_flags_stale(gf) -> bool:
        import urwid  # noqa: PLC0415

        cells = {id(w) for w, _o in gf.contents}

        def stale(c) -> bool:
            if id(c) in cells:
                return False
            if isinstance(c, (urwid.Pile, urwid.Columns)):
                kids = [x[0] for x in c.contents]
                if c.selectable() != any(k.selectable() for k in kids):
                    return True
                return any(stale(k) for k in kids)
            if isinstance(c, urwid.WidgetDecoration):
                return stale(c.original_widget)
            return False

        return stale(gf._w)  # noqa: SLF001

    def replica_key_delivery(self, key, click=None):
        """Leaf ids a FRESH tree with the live structure and focus offers `key` to (None: not comparable); with
        key = _CLICK: (leaf ids that see the press at `click`, focus path afterwards)."""

        class Sink:
            def __init__(self):
                self.got = []
                self.got_mouse = []

            def leaf_event(self, kind, leaf, size, *detail):
                if kind == "key":
                    self.got.append(leaf.lid)
                elif kind == "mouse":
                    self.got_mouse.append(leaf.lid)

            def leaf_action(self, leaf, act):
                pass

        sink = Sink()
        for n in walk_containers(self.root):
            if n.kind == "ListBox":
                # a ListBox resolves focus requests lazily and re-positions the cursor of the new focus widget when it
                # does: re-assigning its focus in a replica is not neutral, so such trees are not compared
                self.res.probe("replica_skipped_listbox_in_tree")
                return None
            try:
                if n.kids and n.base.selectable() != any(c.w.selectable() for c in n.kids if c is not None):
                    # selectable() of a container is only guaranteed right after ITS OWN contents were set (clause 5);
                    # a flag gone stale through an edit deeper down changes who is offered keys, which the statement allows
                    self.res.probe("replica_skipped_stale_selectable_flag")
                    return None
                if n.kind == "GridFlow" and self.gridflow_display_flags_stale(n.base):
                    # the same for the Pile / Columns a GridFlow arranges its cells in: they were built before a cell
                    # changed its mind about being selectable further down
                    self.res.probe("replica_skipped_stale_selectable_flag")
                    return None
            except Exception as e:  # noqa: BLE001
                self.guard(e, "selectable")
                return None
        try:
            w = self.clone_widgets(self.root, sink)
            if w is None:
                return None
            if key is _CLICK:
                # the same button-1 press on the fresh tree: which leaves see it and where the focus path ends up
                x, y = click
                w.mouse_event(self.size, "mouse press", 1, x, y, True)
                return (sink.got_mouse, list(w.base_widget.get_focus_path()) if hasattr(w.base_widget, "get_focus_path") else None)
            if not w.selectable():
                return None
            w.keypress(self.size, key)
        except Exception as e:  # noqa: BLE001
            self.guard(e, "replica")
            return None
        return sink.got

    # ------------------------------------------------------------------ addressing
    def container_at(self, path) -> Node:
        n = self.root
        for i in path:
            kids = [c for c in n.kids if c is not None]
            if not kids:
                break
            c = kids[i % len(kids)]
            if c.kind == "leaf":
                break
            n = c
        return n

    def label(self, n: Node) -> str:
        out = []
        while n.parent is not None:
            out.append(str(n.parent.kids.index(n)))
            n = n.parent
        return "/" + "/".join(reversed(out))

    @staticmethod
    def model_positions(n: Node) -> list:
        """Positions that may be assigned to focus_position according to the documented API."""
        if n.kind in LIST_KINDS:
            return list(range(len(n.kids)))
        if n.kind == "Frame":
            return [p for p, c in zip(FRAME_PARTS, n.kids) if c is not None]
        if n.kind == "Overlay":
            return [1]
        return []

    @staticmethod
    def model_child(n: Node, p):
        if n is None or n.kind == "leaf" or isinstance(p, bool):
            return None
        if n.kind in LIST_KINDS:
            return n.kids[p] if isinstance(p, int) and 0 <= p < len(n.kids) else None
        if n.kind == "Frame":
            return n.kids[FRAME_PARTS.index(p)] if isinstance(p, str) and p in FRAME_PARTS else None
        if n.kind == "Overlay":
            return n.kids[1] if isinstance(p, int) and p == 1 else None
        return None

    def resolve_pos(self, n: Node, v, mod: bool):
        """With mod=True an int is folded onto the valid positions (explicit and deterministic)."""
        if mod and isinstance(v, int) and not isinstance(v, bool):
            valid = self.model_positions(n)
            if valid:
                return valid[v % len(valid)]
        return v

    # ------------------------------------------------------------------ clause 1
    def live_contents(self, n: Node):
        b = n.base
        if n.kind == "ListBox":
            return list(b.body.items) if is_minimal(b) else list(b.body)
        if n.kind == "Frame":
            return [b.body, b.header, b.footer]
        if n.kind == "Overlay":
            return [b.bottom_w, b.top_w]
        return [w for w, _o in b.contents]

    def check_model_sync(self, n: Node, where: str) -> None:
        live = self.live_contents(n)
        want = [None if c is None else c.w for c in n.kids]
        if len(live) != len(want) or any(a is not b for a, b in zip(live, want)):
            raise core.HarnessError(f"model out of sync with {n.kind} at {self.label(n)} after {where}: {live!r} vs {want!r}")

    def focus_state(self, n: Node):
        """(focus_position or ('exc', type), focus widget or ('exc', type)) - for comparisons."""
        a = self.read(lambda: n.base.focus_position, "focus_position")
        b = self.read(lambda: n.base.focus, "focus")
        return (a[1] if a[0] == "ok" else ("exc", type(a[1]).__name__), b[1] if b[0] == "ok" else ("exc", type(b[1]).__name__))

    def check_container(self, n: Node, step) -> str:  # noqa: C901, PLR0911, PLR0912
        cls = n.kind
        b = n.base
        where = f"step {step} {cls} at {self.label(n)}"
        fp = self.read(lambda: b.focus_position, "focus_position")
        fw = self.read(lambda: b.focus, "focus")
        if fw[0] == "exc":
            self.violate("C08.1", f"focus-read-raised:{core.exc_signature(fw[1])} {cls}", f"{where}: {core.format_exc(fw[1], 4)}")
            return "exc"
        if cls in LIST_KINDS and not n.kids:
            if fw[1] is not None:
                self.violate("C08.1", f"empty-container-reports-a-focus {cls}", f"{where}: focus is {fw[1]!r}")
            if fp[0] == "ok":
                self.violate("C08.1", f"empty-container-focus_position-did-not-raise {cls}", f"{where}: focus_position read returned {fp[1]!r}")
            elif not isinstance(fp[1], IndexError):
                self.violate("C08.1", f"empty-container-focus_position-raised-{type(fp[1]).__name__} {cls}", f"{where}: {core.format_exc(fp[1], 4)}")
            return "empty"
        if fp[0] == "exc":
            self.violate("C08.1", f"focus_position-read-raised-on-non-empty:{core.exc_signature(fp[1])} {cls}", f"{where} ({len(n.kids)} children): {core.format_exc(fp[1], 4)}")
            return "exc"
        pos = fp[1]
        if self.model_child(n, pos) is None and not (cls == "Overlay" and pos == 0):
            self.violate("C08.1", f"focus_position-invalid {cls}", f"{where}: focus_position={pos!r}, valid positions {self.model_positions(n)!r}")
            return "invalid"
        if cls == "ListBox" and is_minimal(b):
            got = got2 = self.read(lambda: b.body.items[pos], "items[focus_position]")  # (contents needs a list-like walker)
        elif cls == "ListBox":
            got = self.read(lambda: b.body[pos], "body[focus_position]")
            got2 = self.read(lambda: b.contents[pos][0], "contents[focus_position]")
        else:
            got = got2 = self.read(lambda: b.contents[pos][0], "contents[focus_position]")
        for g in (got, got2):
            if g[0] == "exc":
                self.violate("C08.1", f"contents[focus_position]-raised:{core.exc_signature(g[1])} {cls}", f"{where}: focus_position={pos!r}: {core.format_exc(g[1], 4)}")
                return "exc"
            if g[1] is not fw[1]:
                self.violate("C08.1", f"focus-is-not-contents[focus_position] {cls}", f"{where}: focus_position={pos!r} contents there {g[1]!r} focus {fw[1]!r}")
                return "mismatch"
        want = self.model_child(n, pos) if not (cls == "Overlay" and pos == 0) else n.kids[0]
        if want is None or want.w is not fw[1]:
            self.violate("C08.1", f"focus-is-not-the-child-at-focus_position {cls}", f"{where}: focus_position={pos!r} focus {fw[1]!r}")
            return "mismatch"
        return "ok"

    def check_all(self, step) -> None:
        for n in walk_containers(self.root):
            self.check_container(n, step)

    def check_selectable(self, n: Node, step, how: str) -> None:
        """Clause 5: right after contents was set/edited."""
        if n.kind not in SELECTABLE_BY_CONTENTS:
            return
        b = n.base
        got = self.read(b.selectable, "selectable")
        if got[0] == "exc":
            self.violate("C08.5", f"selectable-raised:{core.exc_signature(got[1])} {n.kind}", f"step {step} after {how}: {core.format_exc(got[1], 4)}")
            return
        want = any(w.selectable() for w, _o in b.contents)
        if bool(got[1]) != want:
            self.violate(
                "C08.5",
                f"selectable-stale-after-contents-edit {n.kind}",
                f"step {step} {n.kind} at {self.label(n)} after {how}: selectable()={got[1]!r} but children selectable: {[w.selectable() for w, _o in b.contents]!r}",
            )
        else:
            self.res.probe("selectable_checked_after_edit")

    def focus_path(self):
        r = self.read(self.root.base.get_focus_path, "get_focus_path")
        if r[0] == "exc":
            self.violate("C08.7", f"get_focus_path-raised:{core.exc_signature(r[1])}", core.format_exc(r[1], 6))
            return None
        return list(r[1])

    # ------------------------------------------------------------------ run
    def run(self) -> str:  # noqa: C901, PLR0912
        import urwid  # noqa: PLC0415

        scen, res = self.scen, self.res
        cfg = scen["config"]
        urwid.util.set_encoding("utf-8")
        urwid.CanvasCache.clear()
        try:
            try:
                self.root = self.build(cfg["tree"], "box")
            except Exception as e:  # noqa: BLE001
                self.guard(e, "build")
                self.violate("C08.1", f"construction-raised:{core.exc_signature(e)}", core.format_exc(e))
                return self.log.digest()
            if self.root.kind == "leaf":
                raise core.HarnessError("the root of a C08 tree must be a container")
            self.size = (int(cfg["size"][0]), int(cfg["size"][1]))
            self.log.add("cfg", [self.describe(self.root), list(self.size)])
            for n in walk_containers(self.root):
                self.check_model_sync(n, "build")
                self.check_selectable(n, -1, "construction")
            self.check_all(-1)
            self.saved_path = self.focus_path()
            for i, op in enumerate(scen["ops"]):
                k = op["op"]
                self.events = []
                handler = getattr(self, "op_" + k, None)
                if handler is None:
                    raise core.HarnessError(f"unknown op {op!r}")
                try:
                    out = handler(i, op)
                except Exception as e:  # noqa: BLE001
                    self.guard(e, f"op {op}")
                    clause = {"key": "C08.2", "mouse": "C08.2", "render": "C08.6", "restore": "C08.7", "set_focus_path": "C08.7", "edit": "C08.5"}.get(k, "C08.1")
                    name = {"key": "keypress", "mouse": "mouse_event"}.get(k, k)
                    tag = ""
                    if type(e).__name__ == "ListBoxError" and self.listbox_item_height_depends_on_inner_focus():
                        tag = " [listbox-item-height-depends-on-its-inner-focus]"
                    self.violate(clause, f"{name}-raised:{core.exc_signature(e)}{tag}", f"step {i} {op} size {self.size} tree {self.describe(self.root)}: {core.format_exc(e)}")
                    self.log.add("exc", [i, k, core.exc_signature(e)])
                    break
                self.check_all(i)
                fp = self.focus_path()
                self.log.add("step", [i, k, out, repr(fp)])
                res.states.add(f"{self.abstract(k, out)}/{self.root.kind}/{len(fp) if fp is not None else -1}")
        finally:
            self.events = []
            urwid.CanvasCache.clear()
        return self.log.digest()

    @staticmethod
    def abstract(k: str, out) -> str:
        """Small abstract description of what a step did (for the distinct-state count)."""
        if isinstance(out, str):
            return f"{k}:{out}"
        if out[0] == "unselectable":
            return "key:not-sent"
        if k == "key":
            kind = "arrow" if out[1] in ARROWS else "plain" if out[1] in PLAIN else "nav"
            return f"key:{kind}:{'consumed' if out[2] == 'None' else 'returned'}:{len(out[3])}:{min(out[4], 2)}"
        if k == "mouse":
            return f"mouse:{out[3]}:{min(len(out[4]), 2)}"
        if k in ("focus_set", "set_focus_path"):
            return f"{k}:{out[1]}:{out[3]}"
        if k == "edit":
            return f"edit:{out[1]}:{out[2]}:{min(out[3], 2)}>{min(out[4], 2)}"
        if k == "frame":
            return f"frame:{out[1]}:{out[2]}:{out[3]}:{out[4]}"
        if k == "restore":
            return f"restore:{out[2]}"
        return k

    def describe(self, n: Node) -> str:
        if n is None:
            return "-"
        if n.kind == "leaf":
            return f"{'B' if n.base.box else 'l'}{n.base.lid}{'s' if n.base.sel else 'u'}"
        return f"{n.kind}[{','.join(self.describe(c) for c in n.kids)}]"

    def ev_log(self, kind):
        return [[e[1].lid, *[repr(x) for x in e[3]], repr(e[4])] for e in self.events if e[0] == kind]

    def parent_kind(self, leaf) -> str:
        for n in walk_leaves(self.root):
            if n.base is leaf:
                return n.parent.kind if n.parent is not None else "-"
        return "detached"

    # ------------------------------------------------------------------ user ops
    def op_key(self, i, op):  # noqa: C901
        key = op["key"]
        rootw = self.root.w
        if not rootw.selectable():
            self.res.probe("root_not_selectable_key_not_sent")
            return ["unselectable", key]
        arrow = key in ARROWS
        before = [(n, self.focus_state(n)[0]) for n in walk_containers(self.root)] if arrow else []
        fresh = self.replica_key_delivery(key) if key in PLAIN else None
        edits0 = getattr(self, "reentrant_edits", 0)
        rv = rootw.keypress(self.size, key)
        self.user_steps += 1
        if getattr(self, "reentrant_edits", 0) != edits0:
            # a handler edited contents during this key: where the focus went is the edit's doing, not the arrow's
            before = []
            self.res.probe("contents_edited_inside_key_handler")
        evs = [e for e in self.events if e[0] == "key"]
        if fresh is not None:
            # Input follows the focus path: which leaf an unbound character is offered to is a function of the
            # structure, the focus positions and the size - not of how the tree got there (cached column widths,
            # a display widget built for an earlier focus, ...).
            live = [e[1].lid for e in evs]
            if live != fresh:
                self.violate(
                    "C08.2",
                    f"key-delivery-differs-from-fresh-tree {self.root.kind}",
                    f"step {i}: key {key!r} at size {self.size} was offered to leaves {live} but a freshly built tree with the same contents, options and focus positions offers it to {fresh}; tree {self.describe(self.root)} focus path {self.focus_path()!r}",
                )
            else:
                self.res.probe("key_delivery_equals_fresh_tree")
        handled = any(e[3][1] for e in evs)
        for e in evs:
            if e[4] is not True:
                self.violate(
                    "C08.2",
                    f"key-offered-off-focus-path {self.parent_kind(e[1])}",
                    f"step {i}: key {key!r} was offered to leaf {e[1].lid} (child of a {self.parent_kind(e[1])}) which was not on root.get_focus_widgets() at that moment ({e[4]!r}); tree {self.describe(self.root)} size {self.size}",
                )
        if evs:
            self.res.probe("key_reached_a_leaf")
        if handled:
            self.res.probe("key_handled_by_leaf")
        if rv is not None and rv != key:
            self.violate("C08.3", "keypress-returned-a-different-key", f"step {i}: {key!r} -> {rv!r}; tree {self.describe(self.root)}")
        elif rv is None and not handled and key in PLAIN:
            self.violate("C08.3", "unhandled-plain-key-not-returned", f"step {i}: {key!r} was handled by no leaf and has no command binding but keypress returned None; tree {self.describe(self.root)} size {self.size}")
        elif rv == key and not handled:
            self.res.probe("unhandled_key_came_back")
        moved = 0
        for n, fp0 in before:
            st = self.focus_state(n)
            if st[0] != fp0 and not (isinstance(st[0], tuple) and st[0][:1] == ("exc",)):
                moved += 1
                child = st[1]
                if child is None or isinstance(child, tuple):
                    continue
                if not child.selectable():
                    self.violate(
                        "C08.4",
                        f"arrow-moved-focus-to-unselectable {n.kind}",
                        f"step {i}: key {key!r} moved focus_position of the {n.kind} at {self.label(n)} from {fp0!r} to {st[0]!r} whose child {child!r} is not selectable; tree {self.describe(self.root)} size {self.size}",
                    )
                else:
                    self.res.probe("arrow_moved_focus_to_selectable")
        return ["key", key, repr(rv), self.ev_log("key"), moved]

    def op_mouse(self, i, op):
        cols, rows = self.size
        x, y = op["x"] % cols, op["y"] % rows
        p0 = self.focus_path()
        fresh = self.replica_key_delivery(_CLICK, click=(x, y))
        edits0 = getattr(self, "reentrant_edits", 0)
        rv = self.root.w.mouse_event(self.size, "mouse press", 1, x, y, True)
        self.user_steps += 1
        p1 = self.focus_path()
        evs = [e for e in self.events if e[0] == "mouse"]
        if fresh is not None and fresh[1] is not None and p1 is not None and getattr(self, "reentrant_edits", 0) == edits0:
            # a press moves the focus to where it lands: the same press on a freshly built tree with the same contents,
            # options and focus positions reaches the same leaves and leaves the same focus path
            live = [e[1].lid for e in evs]
            if live != fresh[0] or p1 != fresh[1]:
                self.violate(
                    "C08.2",
                    f"click-differs-from-fresh-tree {self.root.kind}",
                    f"step {i}: press at {(x, y)} size {self.size}: leaves {live}, focus path {p0!r} -> {p1!r}; a freshly built tree: leaves {fresh[0]}, focus path -> {fresh[1]!r}; tree {self.describe(self.root)}",
                )
            else:
                self.res.probe("click_equals_fresh_tree")
        for e in evs:
            # whoever is offered the press is under the pointer: the coordinates it is given lie inside the size it is given
            lcols, lrows = e[1]._dims(e[2])
            ecol, erow = e[3][0], e[3][1]
            if not (0 <= ecol < lcols and 0 <= erow < lrows):
                self.violate("C08.2", "press-offered-to-a-widget-it-is-not-on", f"step {i}: press at {(x, y)} size {self.size}: leaf {e[1].lid} of size {e[2]} ({lcols}x{lrows}) was offered it at ({ecol}, {erow}); tree {self.describe(self.root)}")
                break
        else:
            if evs:
                self.res.probe("press_coordinates_inside_the_widget")
        rb = self.root.base
        if self.root.kind == "Columns" and getattr(rb, "dividechars", 0) and self.root.kids and getattr(self, "reentrant_edits", 0) == edits0:
            # a press on a divider cell of the root Columns belongs to no child: nobody sees it, the focus stays
            try:
                widths = list(rb.column_widths((cols,), True))
                nrows = rb.rows((cols,), True)
            except Exception:  # noqa: BLE001
                widths = []
                nrows = 0
            if widths and len(widths) == len(self.root.kids) and all(wd > 0 for wd in widths) and y < nrows:
                edge = 0
                on_divider = False
                for wd in widths[:-1]:
                    edge += wd
                    if edge <= x < edge + rb.dividechars:
                        on_divider = True
                    edge += rb.dividechars
                if on_divider:
                    self.res.probe("click_on_a_divider_cell")
                    if evs or p0 != p1:
                        self.violate("C08.2", "click-on-divider-cell-reached-a-child", f"step {i}: press at {(x, y)}: column widths {widths}, dividechars {rb.dividechars}: leaves {[e[1].lid for e in evs]} saw it, focus path {p0!r} -> {p1!r}; tree {self.describe(self.root)}")
        if p0 != p1:
            self.res.probe("click_changed_focus")
        if not evs:
            self.res.probe("click_hit_no_leaf")
        if self.root.kind == "Overlay":
            top_leaves = {id(n.base) for n in walk_leaves(self.root.kids[1])}
            if any(id(e[1]) in top_leaves for e in evs):
                self.res.probe("overlay_top_clicked")
            elif not evs:
                self.res.probe("overlay_bottom_clicked")
            else:
                self.violate("C08.2", "click-delivered-below-overlay-top", f"step {i}: click at {(x, y)} reached leaves {[e[1].lid for e in evs]}")
        return ["mouse", x, y, repr(rv), self.ev_log("mouse")]

    def op_resize(self, i, op):
        self.size = (int(op["size"][0]), int(op["size"][1]))
        self.res.fault("resize")
        return ["resize", list(self.size)]

    def op_render(self, i, op):
        import urwid  # noqa: PLC0415

        urwid.CanvasCache.clear()  # C06 owns the cache: here every leaf must really be asked to render
        self.root.w.render(self.size, True)
        evs = [e for e in self.events if e[0] == "render"]
        nfocus = 0
        for e in evs:
            if e[3][0]:
                nfocus += 1
                if e[4] is not True:
                    self.violate(
                        "C08.6",
                        f"rendered-with-focus-off-focus-path {self.parent_kind(e[1])}",
                        f"step {i}: leaf {e[1].lid} (child of a {self.parent_kind(e[1])}) was rendered with focus=True but was not on root.get_focus_widgets() ({e[4]!r}); tree {self.describe(self.root)} size {self.size}",
                    )
        if nfocus:
            self.res.probe("leaf_rendered_with_focus")
        return ["render", [[e[1].lid, e[3][0]] for e in evs]]

    # ------------------------------------------------------------------ application ops
    def op_focus_set(self, i, op):  # noqa: C901, PLR0912
        n = self.container_at(op.get("path", []))
        cls = n.kind
        v = self.resolve_pos(n, op.get("pos"), bool(op.get("mod")))
        valid = self.model_child(n, v) is not None
        before = self.focus_state(n)
        self.app_steps += 1
        where = f"step {i}: {cls} at {self.label(n)} ({len([c for c in n.kids if c is not None])} children) focus_position = {v!r}"
        try:
            n.base.focus_position = v
        except IndexError as e:
            self.guard(e, "focus_position assignment")
            if valid:
                self.violate("C08.1", f"valid-assignment-raised-IndexError {cls}", f"{where}: {core.format_exc(e, 4)}")
                return ["focus_set", cls, repr(v), "valid-raised"]
            self.res.probe("invalid_assignment_rejected")
            if not n.kids and cls in LIST_KINDS:
                self.res.probe("assignment_to_empty_container_rejected")
            after = self.focus_state(n)
            if after[0] != before[0] or after[1] is not before[1]:
                self.violate("C08.1", f"rejected-assignment-changed-focus {cls}", f"{where}: before {before!r} after {after!r}")
            return ["focus_set", cls, repr(v), "rejected"]
        except Exception as e:  # noqa: BLE001
            self.guard(e, "focus_position assignment")
            if valid:
                self.violate("C08.1", f"valid-assignment-raised:{core.exc_signature(e)} {cls}", f"{where}: {core.format_exc(e, 6)}")
            else:
                self.violate("C08.1", f"invalid-assignment-raised-{type(e).__name__}-not-IndexError {cls}", f"{where}: {core.format_exc(e, 6)}")
            return ["focus_set", cls, repr(v), f"raised-{type(e).__name__}"]
        if not valid:
            after = self.focus_state(n)
            self.violate("C08.1", f"invalid-assignment-accepted {cls}", f"{where}: no exception; before {before!r} after {after!r}")
            return ["focus_set", cls, repr(v), "invalid-accepted"]
        got = self.read(lambda: n.base.focus_position, "focus_position")
        if got[0] != "ok" or got[1] != v:
            self.violate("C08.1", f"valid-assignment-not-applied {cls}", f"{where}: reads back {got[1]!r}")
        self.res.probe("valid_assignment")
        return ["focus_set", cls, repr(v), "set"]

    def path_valid(self, n: Node, fp: list) -> bool:
        for p in fp:
            n = self.model_child(n, p)
            if n is None:
                return False
        return True

    def op_set_focus_path(self, i, op):  # noqa: C901
        n = self.container_at(op.get("path", []))
        cls = n.kind
        raw = list(op.get("fp", []))
        fp = []
        cur = n
        for v in raw:
            p = self.resolve_pos(cur, v, bool(op.get("mod"))) if cur is not None and cur.kind != "leaf" else v
            fp.append(p)
            cur = self.model_child(cur, p) if cur is not None else None
            if op.get("mod") and (cur is None or cur.kind == "leaf"):
                break
        valid = self.path_valid(n, fp)
        self.app_steps += 1
        where = f"step {i}: {cls} at {self.label(n)}.set_focus_path({fp!r}); tree {self.describe(self.root)}"
        try:
            n.base.set_focus_path(fp)
        except IndexError as e:
            self.guard(e, "set_focus_path")
            if valid:
                self.violate("C08.7", f"valid-focus-path-raised-IndexError {cls}", f"{where}: {core.format_exc(e, 6)}")
                return ["set_focus_path", cls, repr(fp), "valid-raised"]
            self.res.probe("invalid_focus_path_rejected")
            return ["set_focus_path", cls, repr(fp), "rejected"]
        except Exception as e:  # noqa: BLE001
            self.guard(e, "set_focus_path")
            if valid:
                self.violate("C08.7", f"valid-focus-path-raised:{core.exc_signature(e)} {cls}", f"{where}: {core.format_exc(e, 6)}")
            else:
                self.violate("C08.7", f"invalid-focus-path-raised-{type(e).__name__}-not-IndexError", f"{where}: {core.format_exc(e, 6)}")
            return ["set_focus_path", cls, repr(fp), f"raised-{type(e).__name__}"]
        if not valid:
            self.violate("C08.7", "invalid-focus-path-accepted", f"{where}: no exception")
            return ["set_focus_path", cls, repr(fp), "invalid-accepted"]
        got = self.read(n.base.get_focus_path, "get_focus_path")
        if got[0] != "ok" or list(got[1])[: len(fp)] != fp:
            self.violate("C08.7", f"focus-path-not-applied {cls}", f"{where}: get_focus_path() afterwards {got[1]!r}")
        self.res.probe("valid_focus_path_written")
        return ["set_focus_path", cls, repr(fp), "set"]

    def op_restore(self, i, op):
        p = self.saved_path
        if p is None:
            return "nothing-saved"
        self.app_steps += 1
        try:
            self.root.base.set_focus_path(p)
        except Exception as e:  # noqa: BLE001
            self.guard(e, "restore")
            self.violate("C08.7", f"restoring-saved-focus-path-raised:{core.exc_signature(e)}", f"step {i}: set_focus_path({p!r}) (read earlier, no structural change since); tree {self.describe(self.root)}: {core.format_exc(e, 6)}")
            return ["restore", repr(p), "raised"]
        now = self.focus_path()
        if now != p:
            self.violate("C08.7", "focus-path-not-restored", f"step {i}: saved {p!r}, after set_focus_path get_focus_path() = {now!r}; tree {self.describe(self.root)}")
            return ["restore", repr(p), "differs"]
        self.res.probe("focus_path_restored_after_user_input" if self.user_steps else "focus_path_restored")
        return ["restore", repr(p), "ok"]

    def structure_changed(self) -> None:
        self.saved_path = self.focus_path()
        self.user_steps = 0

    def op_edit(self, i, op):  # noqa: C901, PLR0912, PLR0915
        n = self.container_at(op.get("path", []))
        cls = n.kind
        if cls not in LIST_KINDS:
            return "skip-not-a-list-container"
        b = n.base
        if is_minimal(b):
            return "skip-walker-is-not-a-list"
        m = op["m"]
        new = [self.build(s, "flow") for s in op.get("new", [])]
        for c in new:
            c.parent = n
        if cls == "ListBox":
            items = [c.w for c in new]
        elif cls == "Columns" and op.get("given") is not None:
            items = [(c.w, b.options("given", int(op["given"]))) for c in new]
        else:
            items = [(c.w, b.options()) for c in new]
        L = b.body if cls == "ListBox" else b.contents
        K = n.kids
        cnt = len(K)
        fp0 = self.focus_state(n)[0]
        a, z = sorted((op.get("a", 0) % (cnt + 1), op.get("b", 0) % (cnt + 1)))
        step = 2 if op.get("step") == 2 else 1
        self.app_steps += 1
        done = m
        if m == "insert":
            if not new:
                return "skip-nothing-to-insert"
            idx = op["i"] if op.get("raw") else op.get("i", 0) % (cnt + 1)
            L.insert(idx, items[0])
            K.insert(idx, new[0])
        elif m == "append":
            if not new:
                return "skip-nothing-to-insert"
            L.append(items[0])
            K.append(new[0])
        elif m == "extend":
            L.extend(items)
            K.extend(new)
        elif m == "iadd":
            if cls == "ListBox":
                b.body += items
            else:
                b.contents += items
            K.extend(new)
        elif m in ("delete", "pop", "replace"):
            if not cnt:
                return "skip-empty"
            idx = op.get("i", 0) % cnt
            if m == "replace":
                if not new:
                    return "skip-nothing-to-insert"
                L[idx] = items[0]
                K[idx] = new[0]
            else:
                if idx == fp0:
                    self.res.probe("focused_child_deleted")
                if m == "delete":
                    del L[idx]
                else:
                    L.pop(idx)
                del K[idx]
        elif m == "delslice":
            if isinstance(fp0, int) and fp0 in range(a, z, step):
                self.res.probe("focused_child_deleted")
            del L[a:z:step]
            del K[a:z:step]
        elif m == "setslice":
            if isinstance(fp0, int) and a <= fp0 < z:
                self.res.probe("focused_child_replaced_by_slice")
            L[a:z] = items
            K[a:z] = new
        elif m == "clear":
            L.clear()
            K.clear()
        elif m == "clear_del":
            del L[:]
            K.clear()
        elif m == "clear_assign":
            if cls == "ListBox":
                L[:] = []
            else:
                b.contents = []
            K.clear()
        elif m == "set":
            if cls == "ListBox":
                L[:] = items
            else:
                b.contents = items
            K[:] = new
        elif m == "reverse":
            L.reverse()
            K.reverse()
        elif m == "remove":
            if not cnt:
                return "skip-empty"
            idx = op.get("i", 0) % cnt
            if idx == fp0:
                self.res.probe("focused_child_deleted")
            L.remove(L[idx])  # (every child is in the list once: the first equal entry is this one)
            del K[idx]
        elif m == "sort":
            # the application sorts the children (by a key of its own: here a rotation of the present order)
            rot = op.get("a", 0) % max(1, cnt)
            rank = {id(c.w): (j - rot) % max(1, cnt) for j, c in enumerate(K)}
            L.sort(key=lambda it: rank[id(it[0] if isinstance(it, tuple) else it)])
            K.sort(key=lambda c: rank[id(c.w)])
            self.res.probe("children_sorted")
        elif m == "imul":
            # list *= 1 (nothing happens) or *= 0 (another way of emptying it)
            if op.get("a", 0) % 2:
                if cls == "ListBox":
                    b.body *= 1
                else:
                    b.contents *= 1
            else:
                if cls == "ListBox":
                    b.body *= 0
                else:
                    b.contents *= 0
                K.clear()
        else:
            raise core.HarnessError(f"unknown edit {m!r}")
        self.check_model_sync(n, m)
        self.check_selectable(n, i, f"{m} ({cnt} -> {len(K)} children)")
        if not K:
            n.emptied = True
            self.res.probe("container_emptied")
        elif n.emptied:
            n.emptied = False
            self.res.probe("container_emptied_and_refilled")
        self.structure_changed()
        return ["edit", cls, done, cnt, len(K)]

    def op_frame(self, i, op):  # noqa: C901
        n = self.container_at(op.get("path", []))
        if n.kind != "Frame":
            return "skip-not-a-frame"
        b = n.base
        part = op["part"]
        idx = FRAME_PARTS.index(part)
        spec = op.get("new")
        via = op.get("via", "attr")
        if spec is None and part == "body":
            return "skip-body-cannot-be-removed"
        if via == "del" and (part == "body" or n.kids[idx] is None):
            return "skip-nothing-to-delete"
        new = self.build(spec, "box" if part == "body" else "flow") if spec is not None and via != "del" else None
        if new is not None:
            new.parent = n
        focused = self.focus_state(n)[0] == part
        self.app_steps += 1
        if via == "del":
            del b.contents[part]
        elif via == "contents":
            b.contents[part] = (new.w if new is not None else None, None)
        else:
            setattr(b, part, new.w if new is not None else None)
        n.kids[idx] = new
        self.check_model_sync(n, f"frame {part}")
        self.res.probe("frame_part_replaced" if new is not None else "frame_part_removed")
        if focused:
            self.res.probe("frame_focused_part_removed" if new is None else "frame_focused_part_replaced")
        self.structure_changed()
        return ["frame", part, via, "new" if new is not None else "none", focused]


    def op_overlay(self, i, op):
        """Overlay.contents[0] / [1] = (widget, options): replaces the bottom / top widget (options unchanged)."""
        n = self.container_at(op.get("path", []))
        if n.kind != "Overlay":
            return "skip-not-an-overlay"
        b = n.base
        which = int(op.get("which", 1)) % 2
        new = self.build(op["new"], "box")
        new.parent = n
        self.app_steps += 1
        options = b.contents[which][1]
        b.contents[which] = (new.w, options)
        now = self.read(lambda: b.contents[which][0], "contents[...]")
        if now[0] != "ok" or now[1] is not new.w:
            self.violate("C08.1", "overlay-contents-assignment-not-applied", f"step {i}: Overlay at {self.label(n)}: contents[{which}] = (new widget, same options) but contents[{which}][0] is {now[1]!r}")
            return ["overlay", which, "not-applied"]
        n.kids[which] = new
        self.check_model_sync(n, f"overlay contents[{which}]")
        self.res.probe("overlay_part_replaced")
        self.structure_changed()
        return ["overlay", which]


class ContainersEngine(Engine):
    prop = P
    name = "widgets-containers"
    level = "exploration"
    tiers = {"quick": 30000, "thorough": 1000000}
    rule = (
        "seeded trees (depth <= 3, <= 10 leaves) of Pile, Columns (dividechars 0/1, weight or given widths), GridFlow, Frame "
        "(body, optional header/footer), Overlay (top over bottom) and ListBox(SimpleFocusListWalker) around recording leaves "
        "(selectable or not, 1-3 rows, scripted set of keys they consume); flow containers in box positions sit in a Filler, box "
        "containers in flow positions in a BoxAdapter, the root is driven as a box widget. Histories of 1-30 steps merge the user "
        "(navigation keys, unbound characters, button-1 presses at any cell; keys only while the root is selectable, as MainLoop "
        "does) with the application (focus_position = valid/invalid values incl. -1, len, 99, strings; set_focus_path valid, "
        "too long, wrong type; contents insert/append/extend/+=/delete/pop/slice deletion/slice assignment/three ways of "
        "clearing/whole assignment/replace/reverse on Pile, Columns, GridFlow and the ListBox walker; Frame body/header/footer "
        "replacement or removal by attribute, contents[...] = and del contents[...]), resizes (1x1..40x24) and explicit renders. "
        "After every step every container of the tree is checked (clause 1) and leaves report whether they were on "
        "root.get_focus_widgets() when a key / focused render reached them. Non-trivial: at least one user step and one "
        "application step were executed; distinct = distinct event-log digests among those."
    )
    assumptions = [
        "whether a leaf is on the focus path is evaluated with root.get_focus_widgets() at the moment the key / render call reaches the leaf, not before the call: ListBox completes a pending focus change (first selectable item, set_focus) inside keypress() and render() before it offers the key / renders",
        "keys are sent only while root.selectable() is true, like MainLoop.process_input does; mouse events always",
        "CanvasCache is cleared before every render step so that every visible leaf is really asked to render (cache transparency is C06)",
        "clause 3 is checked as: the return value is None or the key itself, and an unbound character (a, x, Q) that no leaf consumed must come back",
        "'selectable child' in clauses 4 and 5 means child.selectable() as reported by the child at that moment",
        "clause 4 covers the four arrow keys only (not page up/down, home, end, tab)",
        "for Overlay the only assignable focus_position is 1 (documented); 0 is treated as an invalid assignment",
        "an invalid set_focus_path may have applied a prefix of the path before raising IndexError (the statement demands 'changes nothing' only for focus_position assignment)",
        "clause 7 saves root.get_focus_path() at the start and again after every contents / Frame part edit; the `restore` step writes it back after any number of user and focus-write steps",
        "ListBox bodies are SimpleFocusListWalker, SimpleListWalker or a minimal walker with the four documented methods only (no contents edits on the latter)",
        "'child.selectable()' in clause 4 is read after the keypress returned (a GridFlow rebuilds its display widget, and with it selectable(), inside the keypress that moved onto it)",
        "any exception leaving urwid code during a step other than the IndexError of a rejected assignment / rejected focus path is reported (<call>-raised:<type>@<innermost urwid function>) and ends the history; this includes layout errors of emptied containers and of views too small for an Overlay",
        "a string or None written to focus_position / passed in set_focus_path counts as an invalid position for every container class (set_focus_path documents IndexError for 'incompatible position types')",
    ]
    components = {
        "real": ["Pile, Columns, GridFlow, Frame, Overlay, ListBox, SimpleFocusListWalker, MonitoredFocusList, WidgetContainerMixin, Filler, BoxAdapter, CanvasCombine/Join/Overlay"],
        "stub": ["recording leaves (harness Widget subclasses standing in for Edit/Button/Text)"],
        "driven": ["interleaving of user input with application edits and focus writes", "resize and render placement"],
    }
    required_probes = (
        "focused_child_deleted",
        "container_emptied_and_refilled",
        "invalid_assignment_rejected",
        "assignment_to_empty_container_rejected",
        "click_changed_focus",
        "overlay_top_clicked",
        "overlay_bottom_clicked",
        "frame_part_replaced",
        "frame_focused_part_removed",
        "arrow_moved_focus_to_selectable",
        "focus_path_restored_after_user_input",
        "leaf_rendered_with_focus",
        "key_handled_by_leaf",
        "unhandled_key_came_back",
    )
    reducible = ("ops",)

    # ---- generation ----------------------------------------------------------------------
    def gen_leaf(self, rng: random.Random, ctr: list[int], dull: bool = False) -> dict:
        ctr[0] += 1
        keys = [k for k in KEYS if rng.random() < (0.10 if k in ARROWS else 0.18)]
        leaf = {"k": "leaf", "id": ctr[0], "sel": not dull and rng.random() < 0.65, "keys": keys, "rows": rng.choice([1, 1, 2, 3]), "mouse": rng.random() < 0.3}
        if leaf["sel"] and rng.random() < 0.3:
            leaf.update(cur=True, cx=rng.choice([0, 0, 2, 5]), mc=rng.random() < 0.8)
        if leaf["sel"] and keys and rng.random() < 0.12:
            leaf["act"] = rng.choice(["remove_self", "remove_self", "insert_after"])
        return leaf

    def gen_node(self, rng: random.Random, slot: str, depth: int, budget: list[int], ctr: list[int], must_be_container: bool = False, dull: bool = False) -> dict:  # noqa: C901, PLR0911, PLR0912
        """`dull` subtrees have only unselectable leaves (containers whose selectable() flips when the application edits them)."""
        if not must_be_container and (depth <= 0 or budget[0] <= 1 or rng.random() < (0.45 if slot == "flow" else 0.15)):
            budget[0] -= 1
            return self.gen_leaf(rng, ctr, dull)
        dull = dull or (not must_be_container and rng.random() < 0.15)
        r = rng.random()
        if slot == "flow":
            kind = "Pile" if r < 0.34 else "Columns" if r < 0.64 else "GridFlow" if r < 0.80 else "ListBox" if r < 0.90 else "Frame" if r < 0.96 else "Overlay"
        else:
            kind = "ListBox" if r < 0.28 else "Frame" if r < 0.50 else "Overlay" if r < 0.62 else "Pile" if r < 0.78 else "Columns" if r < 0.92 else "GridFlow"
        if kind in LIST_KINDS:
            nk = 0 if rng.random() < 0.04 else rng.randint(1, 4)
            cd = 0 if kind == "GridFlow" and rng.random() < 0.7 else depth - 1
            kids = [self.gen_node(rng, "flow", cd, budget, ctr, dull=dull) for _ in range(nk) if budget[0] > 0]
            spec = {"k": kind, "kids": kids}
            if rng.random() < 0.3 and kids:
                spec["fp"] = rng.randrange(len(kids))
                if kind != "ListBox" and rng.random() < 0.3:
                    spec["ctor"] = rng.choice([1, 2])  # initial focus through the constructor: by position / by widget
            if kind == "Columns":
                spec["div"] = rng.choice([0, 0, 1])
                if rng.random() < 0.3:
                    spec["given"] = [rng.choice([0, 3, 6, -1]) for _ in range(3)]
            if kind == "GridFlow":
                spec.update(cw=rng.choice([3, 5, 8]), hsep=rng.choice([0, 1]), vsep=rng.choice([0, 0, 1]), ga=rng.choice(["left", "left", "center", "right"]))
            if kind == "ListBox":
                spec["h"] = rng.choice([2, 3, 5])
                spec["walker"] = rng.choice(["focus", "focus", "focus", "simple", "minimal"])
            return spec
        if kind == "Frame":
            spec = {"k": "Frame", "body": self.gen_node(rng, "box", depth - 1, budget, ctr, dull=dull), "h": rng.choice([3, 5, 7])}
            parts = ["body"]
            if rng.random() < 0.7 and budget[0] > 0:
                spec["header"] = self.gen_node(rng, "flow", min(depth - 1, 1), budget, ctr, dull=dull)
                parts.append("header")
            if rng.random() < 0.7 and budget[0] > 0:
                spec["footer"] = self.gen_node(rng, "flow", min(depth - 1, 1), budget, ctr, dull=dull)
                parts.append("footer")
            spec["fp"] = rng.choice(parts) if rng.random() < 0.5 else "body"
            return spec
        return {
            "k": "Overlay",
            "bottom": self.gen_node(rng, "box", min(depth - 1, 1), budget, ctr, dull=dull),
            "top": self.gen_node(rng, "box", depth - 1, budget, ctr, dull=dull),
            "pw": rng.choice([40, 60, 80, 100, 3, 8]),
            "ph": rng.choice([40, 60, 80, 100, 1, 4]),
            "al": rng.choice(["center", "center", "left", "right"]),
            "val": rng.choice(["middle", "middle", "top", "bottom"]),
            "h": rng.choice([3, 5, 7]),
        }

    @staticmethod
    def spec_children(spec: dict) -> list[dict]:
        k = spec["k"]
        if k in LIST_KINDS:
            return list(spec.get("kids", []))
        if k == "Frame":
            return [spec[p] for p in FRAME_PARTS if spec.get(p)]
        if k == "Overlay":
            return [spec["bottom"], spec["top"]]
        return []

    def container_paths(self, spec: dict, path=()) -> list[tuple[tuple[int, ...], str, int]]:
        """(path, kind, number of children) of every container of the initial tree."""
        if spec["k"] == "leaf":
            return []
        kids = self.spec_children(spec)
        out = [(tuple(path), spec["k"], len(kids))]
        for i, c in enumerate(kids):
            out += self.container_paths(c, (*path, i))
        return out

    def gen_new(self, rng: random.Random, ctr: list[int], slot: str = "flow") -> dict:
        r = rng.random()
        if slot == "box":
            if r < 0.5:
                return self.gen_leaf(rng, ctr)
            return {"k": "ListBox", "kids": [self.gen_leaf(rng, ctr) for _ in range(rng.randint(0, 3))]}
        if r < 0.75:
            return self.gen_leaf(rng, ctr)
        kind = rng.choice(["Pile", "Columns", "GridFlow"])
        spec = {"k": kind, "kids": [self.gen_leaf(rng, ctr) for _ in range(rng.randint(0, 2))]}
        if kind == "GridFlow":
            spec.update(cw=5, hsep=1, vsep=0)
        return spec

    def generate(self, rng: random.Random, tier: str) -> dict:  # noqa: C901, PLR0912, PLR0915
        ctr = [0]
        tree = self.gen_node(rng, "box", 3, [10], ctr, must_be_container=True)
        if rng.random() < 0.4:
            # decoration widgets between containers and their children (never around the root)
            def add_deco(spec, is_root=False):
                if not is_root and rng.random() < 0.3:
                    spec["deco"] = [rng.choice(["attrmap", "padding", "placeholder"]) for _ in range(rng.choice([1, 1, 2]))]
                for c in self.spec_children(spec):
                    if c:
                        add_deco(c)

            add_deco(tree, True)
        size = [rng.choice(COLS[1:]), rng.choice(ROWS[1:])] if rng.random() < 0.85 else [rng.choice(COLS), rng.choice(ROWS)]
        conts = self.container_paths(tree)
        lists = [c for c in conts if c[1] in LIST_KINDS]
        frames = [c for c in conts if c[1] == "Frame"]
        overlays = [c for c in conts if c[1] == "Overlay"]

        def some_path(pool):
            if pool and rng.random() < 0.85:
                return list(rng.choice(pool)[0])
            return [rng.randrange(4) for _ in range(rng.choice([0, 1, 1, 2, 3]))]

        ops: list[dict] = [{"op": "render"}] if rng.random() < 0.7 else []
        for _ in range(rng.randint(1, 30)):
            q = rng.random()
            if q < 0.32:
                ops.append({"op": "key", "key": rng.choice(ARROWS) if rng.random() < 0.7 else rng.choice(KEYS)})
            elif q < 0.42:
                ops.append({"op": "mouse", "x": rng.randrange(40), "y": rng.randrange(24)})
            elif q < 0.54:
                op = {"op": "focus_set", "path": some_path(conts)}
                if rng.random() < 0.55:
                    op.update(pos=rng.randrange(8), mod=True)
                else:
                    op.update(pos=rng.choice([-1, -2, 99, 4, 5, 2, 1, 0, "body", "header", "footer", "bogus", None]), mod=False)
                ops.append(op)
            elif q < 0.62:
                op = {"op": "set_focus_path", "path": some_path(conts) if rng.random() < 0.5 else []}
                if rng.random() < 0.6:
                    op.update(fp=[rng.randrange(8) for _ in range(rng.randint(0, 4))], mod=True)
                else:
                    op.update(fp=[rng.choice([0, 0, 1, 1, 2, 3, 99, -1, "body", "header", "footer", "bogus"]) for _ in range(rng.randint(1, 5))], mod=False)
                ops.append(op)
            elif q < 0.78:
                m = rng.choice(EDITS)
                op = {"op": "edit", "path": some_path(lists), "m": m, "i": rng.randrange(6), "a": rng.randrange(6), "b": rng.randrange(6)}
                if m in ("insert", "append", "replace"):
                    op["new"] = [self.gen_new(rng, ctr)]
                elif m in ("extend", "iadd", "setslice", "set"):
                    op["new"] = [self.gen_new(rng, ctr) for _ in range(rng.randint(0, 3))]
                if m == "delslice" and rng.random() < 0.3:
                    op["step"] = 2
                if m == "insert" and rng.random() < 0.15:
                    op.update(i=rng.choice([-1, -2, 7]), raw=True)
                if rng.random() < 0.15:
                    op["given"] = rng.choice([2, 4, 0])
                ops.append(op)
            elif q < 0.84:
                part = rng.choice(FRAME_PARTS)
                op = {"op": "frame", "path": some_path(frames), "part": part, "via": rng.choice(["attr", "attr", "contents", "del"])}
                if part == "body" or rng.random() < 0.6:
                    op["new"] = self.gen_new(rng, ctr, "box" if part == "body" else "flow")
                else:
                    op["new"] = None
                ops.append(op)
            elif q < 0.85 and overlays:
                ops.append({"op": "overlay", "path": list(rng.choice(overlays)[0]), "which": rng.randrange(2), "new": self.gen_new(rng, ctr, "box")})
            elif q < 0.88:
                ops.append({"op": "resize", "size": [rng.choice(COLS), rng.choice(ROWS)] if rng.random() < 0.4 else [rng.choice(COLS[1:]), rng.choice(ROWS[1:])]})
            elif q < 0.94:
                ops.append({"op": "render"})
            else:
                ops.append({"op": "restore"})
        if rng.random() < 0.5:
            ops.append({"op": "restore"})
        ops.append({"op": "render"})
        return {"config": {"tree": tree, "size": size}, "ops": ops}

    def extra_scenarios(self, tier: str) -> list[dict]:
        """Directed histories for shapes the seeded generator reaches only about once per 10^5 runs."""

        def leaf(i, sel, keys=()):
            return {"k": "leaf", "id": i, "sel": sel, "keys": list(keys), "rows": 1, "mouse": False}

        # the application adds a selectable widget two levels below a Pile that had none, then the user types a character
        nested = {"k": "Pile", "fp": 0, "kids": [{"k": "Pile", "kids": [leaf(1, False), {"k": "Pile", "kids": [leaf(2, False)]}]}, leaf(3, True)]}
        return [
            {
                "config": {"tree": nested, "size": [20, 10]},
                "ops": [{"op": "render"}, {"op": "edit", "path": [0, 1], "m": "append", "i": 0, "a": 0, "b": 0, "new": [leaf(4, True)]}, {"op": "key", "key": "a"}, {"op": "render"}],
                "index": "directed-character-after-deep-insert",
            },
        ]

    def execute(self, scen: dict) -> Result:
        res = Result()
        run = _Run(scen, res)
        res.digest = run.run()
        kinds = [o["op"] for o in scen["ops"]]
        if run.app_steps and (res.probes.get("key_reached_a_leaf") or "mouse" in kinds):
            res.nontrivial = True
        if run.log.keep:
            res.info["log"] = run.log.lines
        return res

    # ---- shrinking -----------------------------------------------------------------------
    def simplify(self, scen: dict):  # noqa: C901
        cfg = scen["config"]

        def variants(spec, is_root):  # noqa: C901
            k = spec["k"]
            if k == "leaf":
                if spec.get("keys"):
                    yield dict(spec, keys=[])
                if spec.get("rows", 1) != 1:
                    yield dict(spec, rows=1)
                return
            if not is_root:
                yield {"k": "leaf", "id": 900 + len(repr(spec)) % 90, "sel": True, "keys": [], "rows": 1}
                yield {"k": "leaf", "id": 800 + len(repr(spec)) % 90, "sel": False, "keys": [], "rows": 1}
            if k in LIST_KINDS:
                kids = spec.get("kids", [])
                for i, c in enumerate(kids):
                    yield dict(spec, kids=kids[:i] + kids[i + 1 :])
                    for v in variants(c, False):
                        yield dict(spec, kids=[*kids[:i], v, *kids[i + 1 :]])
                for extra in ("fp", "given", "div"):
                    if spec.get(extra):
                        yield {a: b for a, b in spec.items() if a != extra}
            elif k == "Frame":
                for part in ("header", "footer"):
                    if spec.get(part):
                        yield {a: b for a, b in spec.items() if a != part}
                for part in FRAME_PARTS:
                    if spec.get(part):
                        for v in variants(spec[part], False):
                            yield dict(spec, **{part: v})
            elif k == "Overlay":
                for part in ("bottom", "top"):
                    for v in variants(spec[part], False):
                        yield dict(spec, **{part: v})

        tree = cfg["tree"]
        # hoist a container child to the root
        for c in self.spec_children(tree):
            if c["k"] != "leaf":
                yield dict(scen, config=dict(cfg, tree=c))
        for v in variants(tree, True):
            yield dict(scen, config=dict(cfg, tree=v))
        for i, op in enumerate(scen["ops"]):
            cands = []
            if op.get("path"):
                cands.append(dict(op, path=op["path"][:-1]))
            if isinstance(op.get("new"), list) and len(op["new"]) > 1:
                cands.append(dict(op, new=op["new"][:-1]))
            if isinstance(op.get("new"), list):
                for j, s in enumerate(op["new"]):
                    if s["k"] != "leaf" or s.get("keys") or s.get("rows", 1) != 1:
                        cands.append(dict(op, new=[*op["new"][:j], {"k": "leaf", "id": s.get("id", 700 + j), "sel": s.get("sel", True), "keys": [], "rows": 1}, *op["new"][j + 1 :]]))
            if isinstance(op.get("new"), dict) and op["new"]["k"] != "leaf":
                cands.append(dict(op, new={"k": "leaf", "id": 600 + i, "sel": True, "keys": [], "rows": 1}))
            if op["op"] == "set_focus_path" and len(op.get("fp", [])) > 1:
                cands.append(dict(op, fp=op["fp"][:-1]))
            for c in cands:
                ops = list(scen["ops"])
                ops[i] = c
                yield dict(scen, ops=ops)
        if list(cfg["size"]) != [20, 10]:
            yield dict(scen, config=dict(cfg, size=[20, 10]))


ENGINE = ContainersEngine()
