"""C07 - ListBox always shows a gap-free window of its items containing the focus (engine `widgets-listbox`)

Environment-decided dimension: focus and alignment requests (set_focus, focus_position=, set_focus_valign,
and the home/end keys, which are implemented with them) are DEFERRED until a size is known
(`set_focus_pending`, `set_focus_valign_pending`) and resolved by whichever of render / keypress /
mouse_event comes first.  How many input events and application edits of the walker are batched before
that call, and where resizes land, is decided by the loop.  Renders and resizes are therefore scheduled
operations of the history, never side effects of a check (the one exception is the checked `click`
operation, which is "render, then press at a cell of exactly that frame").

Oracle (public API only): the ListBox canvas is compared with the vertical concatenation R of the
walker's items rendered on their own at the box width; the walker is read through the ListWalker
protocol (get_focus / get_prev / get_next).
"""

from __future__ import annotations

import json
import os
import random

from simkit import core
from simkit.core import EventLog
from simkit.runner import Engine, Result

P = "C07"
KEYS = ["up", "down", "page up", "page down", "home", "end", "a", "x", " ", "enter", "backspace", "left", "right"]
COLS = [1, 2, 3, 4, 5, 7, 10, 14, 20, 30]
VALIGNS = ["top", "middle", "bottom", ["relative", 0], ["relative", 25], ["relative", 50], ["relative", 80], ["relative", 100]]


# ---------------------------------------------------------------------------------------------
# widgets and walkers built from JSON specs
# ---------------------------------------------------------------------------------------------
_CLASSES: dict = {}


class _WalkerIndexError(IndexError):
    """Raised by the custom walker's set_focus for a position that does not exist (exactly what the
    two Simple walkers do).  When urwid hands the walker such a position the protest is urwid's
    behaviour, not a harness bug, although the innermost frame is in this file."""


def classes() -> dict:
    """Custom widget / walker classes (created once; urwid is imported lazily like everywhere else)."""
    if _CLASSES:
        return _CLASSES
    import urwid  # noqa: PLC0415

    class ZeroRows(urwid.Widget):
        """A flow widget that occupies no rows at all (like urwid.Pile([]))."""

        _sizing = frozenset(["flow"])
        _selectable = False

        def rows(self, size, focus=False):
            return 0

        def render(self, size, focus=False):
            return urwid.SolidCanvas(" ", size[0], 0)

    class SelText(urwid.Text):
        """The classic 'selectable Text' idiom: selectable, no cursor, handles no key."""

        _selectable = True

        def keypress(self, size, key):
            return key

    class PosWalker(urwid.ListWalker):
        """Custom positional walker over a Python list: the documented ListWalker protocol
        (get_focus / set_focus / get_next / get_prev + the modified signal), positions are indices."""

        def __init__(self, items, with_positions=True):
            self.items = list(items)
            self.focus = 0
            if with_positions:
                self.positions = self._positions

        def _get(self, pos):
            if isinstance(pos, int) and 0 <= pos < len(self.items):
                return self.items[pos], pos
            return None, None

        def get_focus(self):
            return self._get(self.focus)

        def set_focus(self, position):
            if not isinstance(position, int) or not 0 <= position < len(self.items):
                raise _WalkerIndexError(f"No widget at position {position}")
            self.focus = position
            self._modified()

        def get_next(self, position):
            return self._get(position + 1) if isinstance(position, int) else (None, None)

        def get_prev(self, position):
            return self._get(position - 1) if isinstance(position, int) else (None, None)

        def _positions(self, reverse=False):
            return range(len(self.items) - 1, -1, -1) if reverse else range(len(self.items))

        # application-side editing (keeps the focus on the same widget where possible)
        def _clamp(self):
            self.focus = max(0, min(self.focus, len(self.items) - 1))
            self._modified()

        def insert(self, i, w):
            self.items.insert(i, w)
            if i <= self.focus and len(self.items) > 1:
                self.focus += 1
            self._clamp()

        def delete(self, i):
            del self.items[i]
            if i < self.focus:
                self.focus -= 1
            self._clamp()

        def replace(self, i, w):
            self.items[i] = w
            self._clamp()

        def clear(self):
            del self.items[:]
            self._clamp()

    _CLASSES.update(ZeroRows=ZeroRows, SelText=SelText, PosWalker=PosWalker)
    return _CLASSES


def build_item(spec: dict):  # noqa: C901, PLR0911
    import urwid  # noqa: PLC0415

    k = spec["k"]
    cl = classes()
    if k == "text":
        w = urwid.Text(spec.get("text", ""), wrap=spec.get("wrap", "space"))
    elif k == "seltext":
        w = cl["SelText"](spec.get("text", "s"))
    elif k == "edit":
        w = urwid.Edit(spec.get("caption", ""), spec.get("text", ""), multiline=True)
        w.set_edit_pos(min(spec.get("pos", 0), len(spec.get("text", ""))))
    elif k == "button":
        w = urwid.Button(spec.get("label", "b"))
    elif k == "check":
        w = urwid.CheckBox(spec.get("label", "c"))
    elif k == "div":
        w = urwid.Divider(spec.get("ch", "-"), top=spec.get("top", 0), bottom=spec.get("bottom", 0))
    elif k == "zero":
        w = cl["ZeroRows"]()
    elif k == "pile":
        w = urwid.Pile([build_item(s) for s in spec.get("items", [])])
    else:
        raise core.HarnessError(f"unknown item spec {k}")
    if spec.get("am"):
        w = urwid.AttrMap(w, "n", "f")
    return w


def build_walker(kind: str, widgets: list, cfg: dict):
    import urwid  # noqa: PLC0415

    if kind == "simple":
        return urwid.SimpleListWalker(widgets)
    if kind == "focus":
        return urwid.SimpleFocusListWalker(widgets)
    if kind == "custom":
        return classes()["PosWalker"](widgets, with_positions=cfg.get("positions", True))
    raise core.HarnessError(f"unknown walker {kind}")


def spec_str(spec) -> str:
    return json.dumps(spec, sort_keys=True)[:100]


def content_rows(canv) -> list:
    out = []
    for row in canv.content():
        r = []
        for a, cs, t in row:
            if r and r[-1][0] == a and r[-1][1] == cs:
                r[-1] = (a, cs, r[-1][2] + bytes(t))
            else:
                r.append((a, cs, bytes(t)))
        out.append(r)
    return out


def row_text(row) -> str:
    return b"".join(t for _a, _cs, t in row).decode("utf-8", "replace")


def is_blank(row) -> bool:
    return all(a is None and not t.strip(b" ") for a, _cs, t in row)


class _ItemBroken(Exception):
    """An item cannot be rendered on its own at this width (or disagrees with its own rows()): the
    frame is outside C07 (it is the item's defect, not the ListBox's)."""


# ---------------------------------------------------------------------------------------------
class _Run:
    def __init__(self, scen: dict, res: Result) -> None:
        self.scen = scen
        self.res = res
        self.log = EventLog(keep=bool(os.environ.get("VERIF_KEEP_LOG")))
        self.renders = 0
        self.scrollable_seen = False
        self.moved_between_renders = False
        self.phase = None

    def violate(self, clause, sig, msg=""):
        self.res.violate(P, clause, sig, msg)
        self.log.add("violation", f"{clause} {sig}")

    # ---- reading the list through the walker protocol -------------------------------------
    def walk(self) -> tuple[list, int | None]:
        """[(widget, position)] top to bottom and the index of the focus in it (None: empty)."""
        body = self.lb.body
        fw, fpos = body.get_focus()
        if fw is None:
            return [], None
        above = []
        w, p = body.get_prev(fpos)
        while w is not None and len(above) < 64:
            above.append((w, p))
            w, p = body.get_prev(p)
        below = []
        w, p = body.get_next(fpos)
        while w is not None and len(below) < 64:
            below.append((w, p))
            w, p = body.get_next(p)
        above.reverse()
        return [*above, (fw, fpos), *below], len(above)

    def wlen(self) -> int:
        return len(self.walker.items) if self.scen["config"]["walker"] == "custom" else len(self.walker)

    def pending(self):
        lb = self.lb
        if lb.set_focus_pending == "first selectable":
            return "first"
        if lb.set_focus_pending or lb.set_focus_valign_pending:
            return "request"
        return None

    def note_resolution(self, by: str, before) -> None:
        if before is not None and self.pending() is None and self.wlen():
            if before == "request":
                self.res.probe(f"pending_focus_resolved_by_{by}")
            else:
                self.res.probe(f"first_selectable_resolved_by_{by}")

    def focus_pos(self):
        try:
            return self.lb.focus_position
        except IndexError:
            return None

    # ---- the run ---------------------------------------------------------------------------
    def run(self) -> str:  # noqa: C901, PLR0912, PLR0915
        import urwid  # noqa: PLC0415

        scen, res = self.scen, self.res
        cfg = scen["config"]
        urwid.util.set_encoding("utf-8")
        urwid.CanvasCache.clear()
        widgets = [build_item(s) for s in cfg["items"]]
        self.walker = build_walker(cfg["walker"], widgets, cfg)
        self.lb = lb = urwid.ListBox(self.walker)
        size = tuple(cfg["size"])
        requests = 0  # focus / alignment requests since the last resolving call
        self.log.add("cfg", [cfg["walker"], [spec_str(s) for s in cfg["items"]], list(size)])
        for i, op in enumerate(scen["ops"]):
            k = op["op"]
            self.phase = None
            self.pre_focus_w = lb.body.get_focus()[0]
            try:
                if k == "key":
                    key = op["key"]
                    before = self.pending()
                    self.probe_key(key, size)
                    rv = lb.keypress(size, key)
                    self.note_resolution("keypress", before)
                    if requests >= 2 and before == "request":
                        res.probe("two_requests_before_one_resolution")
                    requests = 1 if (lb.set_focus_pending or lb.set_focus_valign_pending) else 0
                    self.log.add("key", [key, repr(rv), repr(self.focus_pos())])
                    self.moved_between_renders = True
                    if rv is not None and rv != key:
                        self.violate("C07.6", "keypress-returned-a-different-key", f"step {i} size {size}: {key!r} -> {rv!r}")
                        break
                elif k == "mouse":
                    x, y = op.get("x", 0) % size[0], op.get("y", 0) % size[1]
                    before = self.pending()
                    rv = lb.mouse_event(size, "mouse press", op.get("button", 1), x, y, True)
                    self.note_resolution("mouse_event", before)
                    requests = 0
                    self.log.add("mouse", [op.get("button", 1), x, y, repr(rv), repr(self.focus_pos())])
                    self.moved_between_renders = True
                    if op.get("button", 1) in (4, 5):
                        res.probe("wheel")
                elif k == "click":
                    # render, then press button 1 at a cell of exactly that frame
                    before = self.pending()
                    self.phase = "render"
                    frame = self.check_render(i, size, True)
                    self.note_resolution("render", before)
                    requests = 0
                    if res.violations:
                        break
                    self.phase = "mouse_event"
                    self.do_click(i, op, size, frame)
                    if res.violations:
                        break
                elif k in ("set_focus", "focus_pos", "valign", "walker"):
                    if k == "walker" and requests:
                        res.fault("walker_edit_with_pending_request")
                    requests += self.app_op(op)
                    self.moved_between_renders = True
                elif k == "resize":
                    size = tuple(op["size"])
                    self.log.add("resize", list(size))
                    res.fault("resize_with_pending_request" if requests else "resize")
                    self.moved_between_renders = True
                elif k == "render":
                    before = self.pending()
                    if requests >= 2 and before == "request":
                        res.probe("two_requests_before_one_resolution")
                    self.check_render(i, size, bool(op.get("focus", True)))
                    self.note_resolution("render", before)
                    requests = 0
                    if res.violations:
                        break
                else:
                    raise core.HarnessError(f"unknown op {k}")
            except _ItemBroken as e:
                res.probe("item_unrenderable_at_width")
                self.log.add("item-broken", str(e)[:120])
                break
            except core.HarnessError:
                raise
            except Exception as e:  # noqa: BLE001
                if core.raised_in_harness(e) and not (isinstance(e, _WalkerIndexError) and core.innermost_urwid_frame(e)):
                    raise core.HarnessError(f"harness exception in op {op}: {core.format_exc(e)}") from e
                if self.items_broken(size):
                    res.probe("item_unrenderable_at_width")
                    self.log.add("item-broken", f"{k} raised {type(e).__name__}")
                    break
                what = self.phase or {"key": "keypress", "mouse": "mouse_event", "walker": "walker-" + str(op.get("m"))}.get(k, k)
                self.violate("C07.1", self.exc_sig(what, e, size), f"step {i} {op} ({what}) size {size} walker {cfg['walker']}: {core.format_exc(e)}")
                break
        urwid.CanvasCache.clear()
        return self.log.digest()

    def exc_sig(self, what: str, e: BaseException, size) -> str:
        """Canonical signature of an exception out of urwid: <call>-raised:<type>@<innermost ListBox method>.
        Walker-specific frames below the ListBox (SimpleListWalker.set_focus, MonitoredFocusList.focus, the
        custom walker) are not part of the failure class; nor is which of render / keypress / mouse_event
        happened to resolve a pending focus request (that is the environment-decided dimension)."""
        import urwid  # noqa: PLC0415

        tb = e.__traceback__
        inner = None
        through_pending = False
        while tb is not None:
            code = tb.tb_frame.f_code
            if code.co_filename.startswith(core.REPO_DIR + os.sep) and isinstance(tb.tb_frame.f_locals.get("self"), urwid.ListBox):
                inner = f"{os.path.relpath(code.co_filename, core.REPO_DIR)}:{code.co_name}"
                if code.co_name == "_set_focus_complete":
                    through_pending = True
            tb = tb.tb_next
        name = "IndexError" if isinstance(e, _WalkerIndexError) else type(e).__name__
        sig = f"{name}@{inner}" if inner else core.exc_signature(e)
        tag = ""
        try:
            if isinstance(e, urwid.ListBoxError) and self.pre_focus_w is not None and self.pre_focus_w.rows((size[0],), False) == 0:
                tag = " [focus item has 0 rows]"
        except Exception:  # noqa: BLE001
            tag = ""
        return f"{'pending-focus-resolution' if through_pending else what}-raised:{sig}{tag}"

    # ---- probes that need the state just before a key ---------------------------------------
    def probe_key(self, key: str, size) -> None:
        if key != "page down" or not self.wlen():
            return
        items, fi = self.walk()
        if fi is None:
            return
        head = items[0][0]
        try:
            if not head.selectable() and head.rows((size[0],)) >= 2 and fi == 0:
                self.res.probe("page_down_unselectable_multirow_head")
        except Exception:  # noqa: BLE001
            return

    # ---- the application actor (direct call in a history, timer callback in a full-stack run) -------
    def app_op(self, op: dict) -> int:
        """Apply one application-side operation; returns the number of focus / alignment requests it made."""
        lb = self.lb
        k = op["op"]
        if k in ("set_focus", "focus_pos") and op.get("bad") and self.wlen():
            # a position that does not exist (before the first item, counted from the end like a list index, or past the last
            # item): the documented answer is IndexError; whatever the answer, the list shown afterwards is judged as always
            n = self.wlen()
            pos = -1 - (op.get("pos", 0) % n) if op["bad"] == "neg" else n + op.get("pos", 0) % 3
            try:
                if k == "set_focus":
                    lb.set_focus(pos, op.get("from"))
                else:
                    lb.focus_position = pos
            except IndexError:
                self.log.add(k, [pos, "refused"])
                self.res.probe("nonexistent_position_refused")
                return 0
            self.log.add(k, [pos, "accepted"])
            return 1
        if k == "set_focus":
            if self.wlen():
                pos = op.get("pos", 0) % self.wlen()
                lb.set_focus(pos, op.get("from"))
                self.log.add("set_focus", [pos, repr(op.get("from"))])
                return 1
            self.log.add("set_focus", "skipped (empty)")
            return 0
        if k == "focus_pos":
            if self.wlen():
                pos = op.get("pos", 0) % self.wlen()
                lb.focus_position = pos
                self.log.add("focus_pos", pos)
                return 1
            self.log.add("focus_pos", "skipped (empty)")
            return 0
        if k == "valign":
            v = op.get("v", "top")
            lb.set_focus_valign(tuple(v) if isinstance(v, list) else v)
            self.log.add("valign", repr(v))
            return 1
        if k == "walker":
            self.walker_op(op)
            return 0
        raise core.HarnessError(f"unknown application op {k}")

    # ---- full-stack run: bytes -> Screen -> MainLoop -> ListBox -> draw_screen -> RefTerm ------------
    def run_stack(self) -> str:  # noqa: C901
        import urwid  # noqa: PLC0415

        from simkit import appstack  # noqa: PLC0415

        scen, res = self.scen, self.res
        cfg = scen["config"]
        st = cfg["stack"]
        self.pre_focus_w = None
        size = list(cfg["size"])
        events = []
        t = 0.125
        for op in scen["ops"]:
            k = op["op"]
            t += float(op.get("dt", 0.25 if k in ("render", "click") else 0))
            if k == "key":
                hx = appstack.key_hex(op["key"])
                if hx:
                    events.append({"ev": "bytes", "t": t, "hex": hx})
            elif k in ("mouse", "click"):
                x, y = op.get("x", 0) % size[0], op.get("y", 0) % size[1]
                b = op.get("button", 1)
                events.append({"ev": "bytes", "t": t, "hex": appstack.mouse_hex(b, x, y) + ("" if b in (4, 5) else appstack.mouse_hex(b, x, y, True))})
            elif k == "resize":
                size = list(op["size"])
                events.append({"ev": "resize", "t": t, "cols": size[0], "rows": size[1]})
            elif k == "render":
                pass  # a pause: the loop goes idle and redraws
            else:
                events.append({"ev": "app", "t": t, "op": op})

        def factory():
            widgets = [build_item(s) for s in cfg["items"]]
            self.walker = build_walker(cfg["walker"], widgets, cfg)
            self.lb = urwid.ListBox(self.walker)
            return self.lb

        def on_stable(stack):
            if res.violations:
                return
            sz = stack.size()
            n = stack.stable_points
            try:
                frame = self.check_render(f"stable-point {n}", sz, True)
            except _ItemBroken as e:
                res.probe("item_unrenderable_at_width")
                self.log.add("item-broken", str(e)[:120])
                return
            if frame is None or res.violations:
                return
            shown = stack.screen_text()
            if shown != frame["gtext"]:
                bad = next((y for y, (a, b) in enumerate(zip(shown, frame["gtext"])) if a != b), 0)
                self.violate("C07.2", "terminal-differs-from-listbox-canvas-when-loop-waits", f"stable point {n} size {sz}: row {bad}: terminal {shown[bad]!r} canvas {frame['gtext'][bad]!r}")
                return
            res.probe("stack_frame_checked_on_terminal")

        stack = appstack.AppStack({"size": cfg["size"], "loop": st.get("loop", "select"), "tiebreak": st.get("tiebreak", ())}, res, factory, self.app_op, on_stable)
        self.log.add("cfg", ["stack", st.get("loop", "select"), cfg["walker"], [spec_str(s) for s in cfg["items"]], list(cfg["size"])])
        digest = stack.run(events)
        how, exc = stack.outcome
        size_now = tuple(stack.size())
        if how == "raised":
            if isinstance(exc, core.HarnessError):
                raise exc
            if core.raised_in_harness(exc) and not (isinstance(exc, _WalkerIndexError) and core.innermost_urwid_frame(exc)):
                raise core.HarnessError(f"harness exception in full-stack run: {core.format_exc(exc)}") from exc
            if isinstance(exc, _ItemBroken) or self.items_broken(size_now):
                res.probe("item_unrenderable_at_width")
            elif not res.violations:
                self.violate("C07.1", self.exc_sig("full-stack-run", exc, size_now), f"MainLoop.run() raised at size {size_now} walker {cfg['walker']}: {core.format_exc(exc)}")
        elif how in ("livelock", "quiescent") and not res.violations:
            self.violate("C07.1", f"full-stack-run-{how}", str(exc))
        else:
            res.probe("stack_run_completed")
        if stack.stable_points >= 2 and self.scrollable_seen:
            res.nontrivial = True
        self.log.add("stack-digest", digest)
        if self.log.keep:
            self.log.lines.extend(stack.log_lines)
        return self.log.digest()

    # ---- the application actor ----------------------------------------------------------------
    def walker_op(self, op: dict) -> None:
        m = op.get("m", "insert")
        wk = self.walker
        custom = self.scen["config"]["walker"] == "custom"
        n = self.wlen()
        fpos = self.focus_pos()
        if m == "insert":
            i = op.get("i", 0) % (n + 1)
            if op.get("dup") is not None and n and not custom:
                # the same widget object a second time ("widgets may be reused in different locations")
                w = wk[op["dup"] % n]
                self.res.probe("same_widget_object_at_two_positions")
            else:
                w = build_item(op.get("item", {"k": "text", "text": "ins"}))
            wk.insert(i, w)
            self.log.add("walker", ["insert", i, spec_str(op.get("item"))])
            if fpos is not None and i <= fpos:
                self.res.probe("insert_above_focus")
        elif m == "delete":
            if not n:
                self.log.add("walker", "delete skipped (empty)")
                return
            i = op.get("i", 0) % n
            if i == fpos:
                self.res.probe("delete_of_focus_item")
            if custom:
                wk.delete(i)
            else:
                del wk[i]
            self.log.add("walker", ["delete", i])
        elif m == "replace":
            if not n:
                self.log.add("walker", "replace skipped (empty)")
                return
            i = op.get("i", 0) % n
            w = build_item(op.get("item", {"k": "text", "text": "rep"}))
            if custom:
                wk.replace(i, w)
            else:
                wk[i] = w
            if i == fpos:
                self.res.probe("replace_of_focus_item")
            self.log.add("walker", ["replace", i, spec_str(op.get("item"))])
        elif m == "clear":
            if custom:
                wk.clear()
            else:
                del wk[:]
            self.log.add("walker", "clear")
        elif m in ("pop", "remove", "extend", "iadd", "reverse", "sort", "slice_assign", "slice_delete", "list_clear") and custom:
            self.log.add("walker", f"{m} skipped (custom walker)")
        elif m == "pop":
            if n:
                i = op.get("i", 0) % n
                wk.pop(i)
                self.log.add("walker", ["pop", i])
        elif m == "remove":
            if n:
                i = op.get("i", 0) % n
                wk.remove(wk[i])
                self.log.add("walker", ["remove", i])
        elif m in ("extend", "iadd"):
            new = [build_item(it) for it in op.get("items", [{"k": "text", "text": "ext"}])]
            if m == "extend":
                wk.extend(new)
            else:
                wk += new
            self.log.add("walker", [m, len(new)])
        elif m == "reverse":
            wk.reverse()
            self.log.add("walker", "reverse")
        elif m == "sort":
            wk.sort(key=lambda w: w.rows((7,)))
            self.log.add("walker", "sort")
        elif m in ("slice_assign", "slice_delete"):
            a = op.get("i", 0) % (n + 1)
            b = min(n, a + op.get("len", 1))
            if m == "slice_assign":
                wk[a:b] = [build_item(it) for it in op.get("items", [])]
            else:
                del wk[a:b]
            self.log.add("walker", [m, a, b, len(op.get("items", []))])
            if fpos is not None and a <= fpos < b:
                self.res.probe("slice_edit_covers_focus")
        elif m == "list_clear":
            wk.clear()
            self.log.add("walker", "list_clear")
        else:
            raise core.HarnessError(f"unknown walker op {m}")

    # ---- model: every item rendered on its own ---------------------------------------------------
    def items_broken(self, size) -> bool:
        """True when some item cannot render on its own at this width or disagrees with its rows()."""
        try:
            items, _fi = self.walk()
        except Exception:  # noqa: BLE001
            return False
        for w, _p in items:
            for f in (False, True):
                try:
                    if w.render((size[0],), f).rows() != w.rows((size[0],), f):
                        return True
                except Exception:  # noqa: BLE001
                    return True
        return False

    def model(self, cols: int, focus: bool):
        """R (rows of all items), owner[r] = index of the item owning row r, starts, heights, walk."""
        items, fi = self.walk()
        R, owner, starts, heights = [], [], [], []
        for j, (w, _p) in enumerate(items):
            try:
                canv = w.render((cols,), focus=(focus and j == fi))
                rows = content_rows(canv) if canv.rows() else []
                if canv.rows() != w.rows((cols,), focus and j == fi):
                    raise _ItemBroken(f"item {j} rows() disagrees with render at width {cols}")
            except _ItemBroken:
                raise
            except Exception as e:  # noqa: BLE001
                if core.raised_in_harness(e):
                    raise
                raise _ItemBroken(f"item {j} cannot render at width {cols}: {type(e).__name__}") from e
            starts.append(len(R))
            heights.append(len(rows))
            R.extend(rows)
            owner.extend([j] * len(rows))
        return R, owner, starts, heights, items, fi

    # ---- one checked frame ----------------------------------------------------------------------
    def check_render(self, i, size, focus):  # noqa: C901, PLR0911, PLR0912, PLR0915
        res, lb = self.res, self.lb
        cols, rows = size
        had_pending = self.pending()
        canv = lb.render(size, focus)
        got = content_rows(canv)
        gtext = [row_text(r) for r in got]
        R, owner, starts, heights, items, fi = self.model(cols, focus)
        rtext = [row_text(r) for r in R]
        T = len(R)
        self.renders += 1
        if self.scen["config"]["walker"] != "custom" and fi is None and len(lb.body):
            self.violate("C07.3", "list-has-items-but-the-walker-reports-no-focus", f"step {i} size {size}: {len(lb.body)} items, get_focus() {lb.body.get_focus()!r}; shown {gtext!r}")
            return None
        if self.scen["config"]["walker"] != "custom" and fi is not None and len(lb.body) <= 64:
            # the two bundled walkers ARE lists: the concatenation the property speaks of is the list order, whatever
            # their get_next / get_prev / get_focus say (the model above reads the list through those)
            want = list(lb.body)
            if len(want) != len(items) or any(a is not b[0] for a, b in zip(want, items)) or items[fi][0] is not lb.body.get_focus()[0]:
                self.violate("C07.2", "rows-are-not-a-contiguous-slice [walker order differs from list order]", f"step {i} size {size}: walker protocol yields items {[want.index(w) if w in want else None for w, _ in items]} of the list of {len(want)}, focus position {lb.body.get_focus()[1]!r}")
                return None
            res.probe("walker_order_checked_against_list")
        if canv.rows() != rows or len(got) != rows:
            self.violate("C07.2", "canvas-has-wrong-number-of-rows", f"step {i} size {size}: canvas rows {canv.rows()}")
            return None
        if canv.cols() != cols or any(len(t) != cols for t in gtext):
            self.violate("C07.2", "canvas-has-wrong-width", f"step {i} size {size}: canvas cols {canv.cols()} rows {gtext!r}")
            return None
        if fi is None:
            res.probe("empty_walker_rendered")
            self.log.add("render", [list(size), focus, "empty"])
            res.states.add(f"empty/{focus}")
            if not all(is_blank(r) for r in got) or canv.cursor is not None:
                self.violate("C07.2", "empty-list-not-rendered-blank", f"step {i} size {size}: {gtext!r} cursor {canv.cursor}")
            return None
        if T > rows:
            self.scrollable_seen = True
        fs, fh = starts[fi], heights[fi]
        fw = items[fi][0]
        # clause 2: contiguous slice, then only blank rows
        def cands(eq_rows, eq_model):
            out = []
            for k in range(max(1, T)):
                m = min(rows, T - k)
                if eq_rows[:m] == eq_model[k : k + m] and all(is_blank(r) for r in got[m:]):
                    out.append(k)
            return out

        ks = cands(gtext, rtext)
        ctx = f"step {i} size {size} focus={focus} focus item #{fi} rows {fs}..{fs + fh - 1} of {T}"
        if not ks:
            # name the failure: blank rows above the first item?
            lead = 0
            while lead < rows and is_blank(got[lead]):
                lead += 1
            if 0 < lead and T and gtext[lead : lead + min(rows - lead, T)] == rtext[: min(rows - lead, T)] and all(is_blank(r) for r in got[lead + min(rows - lead, T) :]):
                self.violate("C07.4", "blank-rows-above-first-item", f"{ctx}: {lead} blank rows, then the list from its first row: {gtext!r}")
                return None
            self.violate("C07.2", "rows-are-not-a-contiguous-slice", f"{ctx}: shown {gtext!r}; items {rtext!r}")
            return None
        ks_a = cands(got, R)
        if not ks_a:
            k = ks[0]
            bad = next((y for y in range(min(rows, T - k)) if got[y] != R[k + y]), 0)
            self.violate("C07.2", "slice-attributes-differ-from-items", f"{ctx}: k={k} row {bad}: shown {got[bad]!r} item row {R[k + bad]!r}")
            return None
        ks = ks_a
        # clause 4: trailing blank rows only when nothing is scrolled off the top
        ks4 = [k for k in ks if not (T - k < rows and k > 0)]
        if not ks4:
            k = ks[0]
            self.violate("C07.4", "blank-rows-below-although-scrolled", f"{ctx}: first shown row is row {k} of the list, {rows - (T - k)} blank rows at the bottom: {gtext!r}")
            return None
        # clause 3: the focus item is in view (a 0-row focus item cannot be)
        if fh == 0:
            res.probe("zero_row_focus_item")
            ks3 = ks4
        else:
            ks3 = [k for k in ks4 if fs < k + rows and fs + fh > k]
            if not ks3:
                self.violate("C07.3", "focus-item-not-visible", f"{ctx}: shown slice starts at row {ks4[0]}: {gtext!r}")
                return None
        fcur = None
        if focus:
            try:
                fcur = fw.render((cols,), True).cursor
            except Exception as e:  # noqa: BLE001
                raise _ItemBroken(f"focus item cannot render: {type(e).__name__}") from e
        if fcur is not None:
            cx, cy = fcur
            ksc = [k for k in ks3 if k <= fs + cy < k + rows]
            if not ksc:
                self.violate("C07.3", "cursor-row-not-visible", f"{ctx}: cursor of the focus item at its row {cy} (list row {fs + cy}), slice starts at {ks3[0]}; canvas cursor {canv.cursor}")
                return None
            ksd = [k for k in ksc if canv.cursor == (cx, fs + cy - k)]
            if not ksd:
                self.violate("C07.3", "canvas-cursor-not-at-focus-item-cursor", f"{ctx}: focus item cursor {fcur}, slice starts at {ksc[0]}, canvas cursor {canv.cursor}")
                return None
            ks3 = ksd
            res.probe("cursor_checked")
        if focus:
            # what the ListBox tells its parent about the cursor (Frame, Pile, MainLoop place the terminal cursor by it)
            # is what it has just drawn
            try:
                cc = lb.get_cursor_coords(size)
            except Exception as e:  # noqa: BLE001
                if core.raised_in_harness(e):
                    raise
                self.violate("C07.1", f"get_cursor_coords-raised:{core.exc_signature(e)}", f"{ctx}: {core.format_exc(e)}")
                return None
            if (tuple(cc) if cc is not None else None) != (tuple(canv.cursor) if canv.cursor is not None else None):
                self.violate("C07.3", "get_cursor_coords-differs-from-the-cursor-drawn", f"{ctx}: get_cursor_coords {cc!r}, canvas cursor {canv.cursor!r}")
                return None
            res.probe("cursor_report_checked")
        elif canv.cursor is not None:
            self.violate("C07.3", "canvas-has-a-cursor-the-focus-item-does-not", f"{ctx}: canvas cursor {canv.cursor}")
            return None
        k = ks3[0]
        res.probe("slice_checked")
        if T - k < rows:
            res.probe("trailing_blank_rows")
        if fh > rows:
            res.probe("focus_item_taller_than_box")
        if any(h == 0 for h in heights):
            res.probe("zero_row_item_in_list")
        if k > 0 and k + rows < T:
            res.probe("window_strictly_inside_list")
        if fs < k or fs + fh > k + rows:
            res.probe("focus_item_partly_cut_off")
        bucket = lambda n: min(n, 2)  # noqa: E731
        res.states.add(f"{bucket(fi)}/{bucket(len(items) - fi - 1)}/{fh > rows}/{had_pending}/{fs < k}/{k == 0}/{k + rows >= T}/{focus}/{fcur is not None}")
        self.log.add("render", [list(size), focus, T, k, repr(items[fi][1]), repr(canv.cursor)])
        if self.renders >= 2 and self.moved_between_renders and self.scrollable_seen:
            res.nontrivial = True
        self.moved_between_renders = False
        return {"ks": ks3, "owner": owner, "items": items, "T": T, "gtext": gtext}

    def do_click(self, i, op, size, frame) -> None:
        res, lb = self.res, self.lb
        x, y = op.get("x", 0) % size[0], op.get("y", 0) % size[1]
        target = None
        if frame is not None:
            owners = []
            for k in frame["ks"]:
                o = frame["owner"][k + y] if k + y < frame["T"] else None
                if o not in owners:
                    owners.append(o)
            if len(owners) == 1 and owners[0] is not None:
                target = frame["items"][owners[0]]
            elif len(owners) > 1:
                res.probe("click_row_owner_ambiguous")
        sel = target is not None and target[0].selectable()
        before = self.focus_pos()
        rv = lb.mouse_event(size, "mouse press", 1, x, y, True)
        after = self.focus_pos()
        self.log.add("click", [x, y, repr(rv), repr(before), repr(after), repr(target[1]) if target else "-", sel])
        self.moved_between_renders = True
        if sel:
            if after != target[1]:
                self.violate("C07.5", "click-did-not-focus-item", f"step {i} size {size}: press at ({x},{y}) on selectable item at position {target[1]!r} ({type(target[0]).__name__}); focus_position {before!r} -> {after!r}")
                return
            res.probe("click_focused_item" if before != after else "click_on_focus_item")
        elif target is not None:
            res.probe("click_on_unselectable_item")


# ---------------------------------------------------------------------------------------------
class ListBoxEngine(Engine):
    prop = P
    name = "widgets-listbox"
    level = "exploration"
    tiers = {"quick": 28000, "thorough": 800000}
    rule = (
        "seeded histories (1-30 steps) over a ListBox on SimpleListWalker / SimpleFocusListWalker / a custom positional ListWalker "
        "(with and without the optional positions()) holding 0-10 flow items (Text of 1..many rows, empty Text, selectable Text, "
        "multi-row Edit with the cursor anywhere, Button, CheckBox, Divider, a zero-row widget, Pile of those, items taller than "
        "the box, optionally under an AttrMap with a focus attribute) at box sizes 1x1..30x12: keys (up/down/page up/page down/"
        "home/end/printable/enter/backspace/left/right), button-1 presses and wheel events at any cell, set_focus(pos, coming_from), "
        "focus_position=, set_focus_valign, walker insert/delete/replace/clear, resizes; render is an explicit step, so several "
        "requests / edits / input events may be batched before the call that resolves the pending focus (render, keypress or "
        "mouse_event) and a resize may land in between. Every render is compared with the concatenation of the items rendered on "
        "their own. Non-trivial: >= 2 checked renders with at least one other operation between them and the list taller than the "
        "box in at least one of them; distinct = distinct event-log digests among those."
    )
    assumptions = [
        "the model row of an item is the item's own render at the box width with focus = (it is the focus item and the ListBox is rendered with focus); text layout is C03's business",
        "the list is read through the ListWalker protocol (get_focus/get_prev/get_next) right after the render, walkers do not wrap around",
        "a frame in which some item cannot render on its own at that width, or disagrees with its own rows(), is skipped (defect of the item, not of ListBox)",
        "a focus item of zero rows cannot be visible: the visibility clause is vacuous for it",
        "the cursor clauses apply only when the ListBox is rendered with focus=True (otherwise no item shows a cursor)",
        "when duplicate rows make several slice offsets possible, any offset satisfying all clauses is accepted; a click on a row whose owner differs between them is not judged",
        "positions passed to set_focus / focus_position= / walker edits are reduced modulo the current length; requests on an empty list (documented IndexError) are skipped",
        "full-stack runs (12%): the same kind of history as timed events (key / SGR mouse bytes on the fake tty, SIGWINCH, application timers through MainLoop.set_alarm_at) on the real MainLoop + raw Screen + one of the six loops; the clauses are evaluated whenever the loop waits with the screen up to date, on the ListBox canvas MainLoop drew (a cache hit) and on the RefTerm grid; the click clause (5) is direct-drive only",
    ]
    components = {
        "real": ["ListBox, SimpleListWalker, SimpleFocusListWalker, MonitoredList/MonitoredFocusList, ListWalker signal plumbing, Text/Edit/Button/CheckBox/Divider/Pile/AttrMap, CanvasCombine/trim/pad, CanvasCache"],
        "stub": ["custom positional ListWalker subclass, zero-row flow widget, selectable Text (test fixtures, not stubs of urwid code)"],
        "driven": ["batching of requests / edits / input before the resolving call", "which call resolves a pending focus (render, keypress, mouse_event)", "resize placement", "render focus flag"],
    }
    required_probes = (
        "nonexistent_position_refused",
        "walker_order_checked_against_list",
        "pending_focus_resolved_by_keypress",
        "pending_focus_resolved_by_render",
        "pending_focus_resolved_by_mouse_event",
        "page_down_unselectable_multirow_head",
        "focus_item_taller_than_box",
        "delete_of_focus_item",
        "empty_walker_rendered",
        "click_focused_item",
        "cursor_checked",
        "cursor_report_checked",
        "zero_row_item_in_list",
        "trailing_blank_rows",
        "window_strictly_inside_list",
        "stack_frame_checked_on_terminal",
        "stack_several_events_before_one_redraw",
    )
    reducible = ("ops",)

    # ---- generation ---------------------------------------------------------------------------
    def gen_text(self, rng: random.Random, tag: str, lines: int) -> str:
        return "\n".join(f"{tag}{j}" + rng.choice(["", " w", " word", " two words", "xxxxxxxx"]) for j in range(lines))

    def gen_item(self, rng: random.Random, tag: str, allow_pile: bool = True) -> dict:  # noqa: PLR0911
        q = rng.random()
        if q < 0.16:
            spec = {"k": "text", "text": self.gen_text(rng, tag, 1)}
        elif q < 0.30:
            spec = {"k": "text", "text": self.gen_text(rng, tag, rng.randint(2, 5)), "wrap": rng.choice(["space", "any", "clip"])}
        elif q < 0.36:
            spec = {"k": "text", "text": self.gen_text(rng, tag, rng.randint(11, 16))}
        elif q < 0.39:
            spec = {"k": "text", "text": ""}
        elif q < 0.45:
            spec = {"k": "zero"}
        elif q < 0.50:
            spec = {"k": "seltext", "text": self.gen_text(rng, tag, rng.randint(1, 3))}
        elif q < 0.66:
            text = self.gen_text(rng, tag, rng.randint(1, 4))
            spec = {"k": "edit", "caption": rng.choice(["", f"{tag}:", f"{tag}\n"]), "text": text, "pos": rng.randint(0, len(text))}
        elif q < 0.70:
            text = self.gen_text(rng, tag, rng.randint(11, 15))
            spec = {"k": "edit", "caption": "", "text": text, "pos": rng.randint(0, len(text))}
        elif q < 0.80:
            spec = {"k": "button", "label": f"{tag}" + rng.choice(["", "btn", " a long label"])}
        elif q < 0.86:
            spec = {"k": "check", "label": f"{tag}" + rng.choice(["", "cb", " check me"])}
        elif q < 0.93 or not allow_pile:
            spec = {"k": "div", "ch": rng.choice(["-", "=", " "]), "top": rng.choice([0, 0, 1]), "bottom": rng.choice([0, 0, 1])}
        else:
            return {"k": "pile", "items": [self.gen_item(rng, f"{tag}{c}", False) for c in "pqr"[: rng.randint(0, 3)]]}
        if rng.random() < 0.2:
            spec["am"] = True
        return spec

    def generate(self, rng: random.Random, tier: str) -> dict:  # noqa: C901, PLR0912
        n = rng.choice([0, 1, 1, 2, 3, 4, 5, 6, 7, 8, 9, 10]) if rng.random() < 0.97 else 0
        items = [self.gen_item(rng, "abcdefghij"[j]) for j in range(n)]
        if items and rng.random() < 0.15:
            # an unselectable multi-row head
            items[0] = {"k": "text", "text": self.gen_text(rng, "h", rng.randint(2, 6))}
        size = [rng.choice(COLS), rng.randint(1, 12)]
        cfg = {"walker": rng.choice(["simple", "focus", "custom"]), "items": items, "size": size}
        if cfg["walker"] == "custom":
            cfg["positions"] = rng.random() < 0.85
        ops = [{"op": "render", "focus": True}] if rng.random() < 0.7 else []
        tagc = iter([*"ABCDEFGHIJKLMNOPQRSTUVWXYZabcdefghij", *(c + c for c in "ABCDEFGHIJKLMNOPQRSTUVWXYZabcdefghijklmnopqrstuvwxyz")])
        for _ in range(rng.randint(1, 30)):
            q = rng.random()
            if q < 0.34:
                ops.append({"op": "key", "key": rng.choice(KEYS[:6]) if rng.random() < 0.75 else rng.choice(KEYS)})
            elif q < 0.38:
                ops.append({"op": "mouse", "button": 1, "x": rng.randrange(30), "y": rng.randrange(12)})
            elif q < 0.44:
                ops.append({"op": "click", "x": rng.randrange(30), "y": rng.randrange(12)})
            elif q < 0.49:
                ops.append({"op": "mouse", "button": rng.choice([4, 5]), "x": rng.randrange(30), "y": rng.randrange(12)})
            elif q < 0.57:
                ops.append({"op": "set_focus", "pos": rng.randrange(12), "from": rng.choice([None, "above", "below"])})
                if rng.random() < 0.12:
                    ops[-1]["bad"] = rng.choice(["neg", "over"])
            elif q < 0.60:
                ops.append({"op": "focus_pos", "pos": rng.randrange(12)})
                if rng.random() < 0.12:
                    ops[-1]["bad"] = rng.choice(["neg", "over"])
            elif q < 0.65:
                ops.append({"op": "valign", "v": rng.choice(VALIGNS)})
            elif q < 0.75:
                m = rng.choice(["insert"] * 6 + ["delete"] * 5 + ["replace"] * 4 + ["clear"])
                if rng.random() < 0.3:
                    # the other list methods of the two bundled walkers (they are MonitoredLists)
                    m = rng.choice(["pop", "remove", "extend", "iadd", "reverse", "sort", "slice_assign", "slice_assign", "slice_delete", "list_clear"])
                op = {"op": "walker", "m": m, "i": rng.randrange(12)}
                if m in ("insert", "replace"):
                    op["item"] = self.gen_item(rng, next(tagc))
                if m == "insert" and rng.random() < 0.15:
                    op["dup"] = rng.randrange(12)
                if m in ("extend", "iadd", "slice_assign"):
                    op["items"] = [self.gen_item(rng, next(tagc)) for _ in range(rng.randint(0, 3))]
                    op["len"] = rng.randint(0, 3)
                if m == "slice_delete":
                    op["len"] = rng.randint(0, 3)
                ops.append(op)
                if m in ("clear", "list_clear", "slice_delete") and rng.random() < 0.6:
                    # emptied and refilled in place (a reloaded list): whatever the list remembers of the old focus must fit the new contents
                    ops.append({"op": "walker", "m": rng.choice(["iadd", "extend", "slice_assign", "insert"]), "i": 0, "len": 0, "items": [self.gen_item(rng, next(tagc)) for _ in range(rng.randint(1, 3))]})
                    if ops[-1]["m"] == "insert":
                        ops[-1]["item"] = ops[-1].pop("items")[0]
            elif q < 0.80:
                ops.append({"op": "resize", "size": [rng.randint(1, 30) if rng.random() < 0.5 else rng.choice(COLS), rng.randint(1, 12)]})
            else:
                ops.append({"op": "render", "focus": rng.random() < 0.9})
        ops.append({"op": "render", "focus": True})
        if rng.random() < 0.12:
            # full stack: the same history as timed external events; dt = 0 batches an event with its predecessor
            cfg["stack"] = {"loop": rng.choice(["select", "select", "select", "asyncio", "zmq", "tornado", "twisted", "trio"]), "tiebreak": [rng.randrange(4) for _ in range(8)]}
            for op in ops:
                op["dt"] = 0.25 if op["op"] in ("render", "click") else rng.choice([0, 0, 0, 1 / 1024, 0.0625, 0.25])
        return {"config": cfg, "ops": ops}

    def execute(self, scen: dict) -> Result:
        res = Result()
        run = _Run(scen, res)
        res.digest = run.run_stack() if scen["config"].get("stack") else run.run()
        if run.log.keep:
            res.info["log"] = run.log.lines
        return res

    # ---- reduction ----------------------------------------------------------------------------
    def simplify(self, scen: dict):  # noqa: C901
        cfg = scen["config"]
        items = cfg["items"]

        def simpler(spec: dict):
            if spec.get("am"):
                yield {k: v for k, v in spec.items() if k != "am"}
            if spec["k"] == "pile":
                for j in range(len(spec["items"])):
                    yield dict(spec, items=spec["items"][:j] + spec["items"][j + 1 :])
                if len(spec["items"]) == 1:
                    yield spec["items"][0]
            if spec["k"] in ("text", "seltext", "edit") and "\n" in spec.get("text", ""):
                lines = spec["text"].split("\n")
                for keep in (lines[: len(lines) // 2], lines[:-1]):
                    s = dict(spec, text="\n".join(keep))
                    if "pos" in s:
                        s["pos"] = min(s["pos"], len(s["text"]))
                    yield s
            if spec["k"] in ("text", "seltext", "edit"):
                short = "\n".join(ln[:2] for ln in spec.get("text", "").split("\n"))
                if short != spec.get("text", ""):
                    s = dict(spec, text=short)
                    if "pos" in s:
                        s["pos"] = min(s["pos"], len(short))
                    yield s
            if spec["k"] == "edit" and spec.get("caption"):
                yield dict(spec, caption="")
            if spec["k"] in ("button", "check") and len(spec.get("label", "")) > 1:
                yield dict(spec, label=spec["label"][:1])
            if spec["k"] == "div" and (spec.get("top") or spec.get("bottom")):
                yield dict(spec, top=0, bottom=0)
            if spec["k"] not in ("text", "zero"):
                yield {"k": "text", "text": "t"}

        for j in range(len(items)):
            yield dict(scen, config=dict(cfg, items=items[:j] + items[j + 1 :]))
        for j, spec in enumerate(items):
            for s in simpler(spec):
                yield dict(scen, config=dict(cfg, items=[*items[:j], s, *items[j + 1 :]]))
        if cfg["walker"] != "simple":
            yield dict(scen, config={k: v for k, v in dict(cfg, walker="simple").items() if k != "positions"})
        if cfg["walker"] == "custom" and not cfg.get("positions", True):
            yield dict(scen, config=dict(cfg, positions=True))
        for j, op in enumerate(scen["ops"]):
            if op["op"] == "walker" and "item" in op:
                for s in simpler(op["item"]):
                    yield dict(scen, ops=[*scen["ops"][:j], dict(op, item=s), *scen["ops"][j + 1 :]])
            if op["op"] == "click":
                yield dict(scen, ops=[*scen["ops"][:j], {"op": "render", "focus": True}, *scen["ops"][j + 1 :]])
            if op["op"] == "render" and not op.get("focus", True):
                yield dict(scen, ops=[*scen["ops"][:j], {"op": "render", "focus": True}, *scen["ops"][j + 1 :]])


ENGINE = ListBoxEngine()
