"""C04 - the bytes sent to the terminal paint exactly the rendered canvas   (engine `display`)

The real posix raw Screen draws a history of canvases on a fake tty; RefTerm interprets every
byte.  The environment decides when SIGWINCH arrives (between frames, between the size query
and the draw, inside the k-th write() of a frame, twice in a row, with or without a size
change) and what size the terminal then has.  Oracle: DESIGN.md section 5, C04.
"""

from __future__ import annotations

import html
import os
import random
import re
import signal

from simkit import core
from simkit import world as W
from simkit.refterm import DEFAULT, Attr, RefTerm, char_width
from simkit.runner import Engine, Result

P = "C04"
COLORS = [1, 16, 88, 256, 2**24]
ENC = {"utf8": "utf-8", "narrow": "iso8859-1", "wide": "euc-jp", "narrow2": "koi8-r", "wide2": "gbk"}
# encodings whose printable characters use bytes 0x80-0x9f (C1 controls in ISO 8859): KOI8-R box drawing and Cyrillic,
# GBK characters with such a lead or trail byte (trail bytes kept >= 0x80: width arithmetic on ASCII-range trail bytes is C11's)
NARROW2_CHARS = "─│┌█░▒▓жЖя"
WIDE2_CHARS = "試們國來"
WIDE_CHARS = "日本語漢字あア"
COMBINING = "́"
DEC_ALT = "_`abcdefghijklmnopqrstuvwxyz{|}~"

PALETTE = [
    # name, fg, bg, mono, fg_high, bg_high
    ["p0", "light gray", "dark blue", None, None, None],
    ["p1", "white,bold", "dark red", "bold", "#ff0,underline", "#008"],
    ["p2", "yellow", "light gray", "standout", "g50", "g7"],
    ["p3", "light red,underline", "default", "underline", "#f80", "h12"],
    ["p4", "black,standout", "brown", "standout,bold", "h9", "#0f0"],
    ["p5", "dark cyan,italics,strikethrough", "light cyan", "italics", "#0ff,blink", "g93"],
    ["p6", "light magenta", "black", "underline", "#ff8800", "#0000d7"],
    # an empty string is a value ("the terminal's default colour"), only None means "use the 16-colour setting"
    ["p7", "black", "light gray", None, "", "g85"],
    ["p8", "white", "dark blue", "bold", "#f80", ""],
]
# the palette entry None is what unstyled cells are painted with: an application may register its own (a global colour scheme)
NONE_ENTRIES = [
    [None, "white", "dark blue", "bold", "#ff0", "#008"],
    [None, "black", "light gray", None, None, None],
    [None, "yellow,underline", "default", "underline", "g50", ""],
]
SPEC_ATTRS = [
    ["light green", "dark magenta", 16],
    ["#f0f,bold", "#010", 256],
    ["h200", "h17", 256],
    ["#123456", "#fedcba", 2**24],
    ["default,underline", "default", 256],
    ["yellow,standout", "black", 16],
    ["g35", "g70", 88],
    ["white", "dark gray", 16],
    ["#ff0000", "#0000ff", 256],
    ["#d75f00,italics", "#5f00af", 256],
    ["#f80", "#08c", 88],
    ["#00cd8b", "#ff0000", 88],
    ["h40,bold", "g#5c", 88],
    ["g#12", "g#ee", 256],
    ["#00ff5f", "#0a141e", 2**24],
]


# --- the colour notation, written down independently of urwid.display.common -------------------------
# (urwid manual, "Display Attributes": the 16 basic names; 'hN' = colour number N; '#rgb' = the colour-cube entry
# nearest to the three hex digits; '#rrggbb' at 88/256 colours = the same through the high nibbles; 'gN' / 'g#xx' = the
# gray nearest to N percent / to xx; cube and gray levels are xterm's, 256colres.h and 88colres.h.)  The model only
# answers where the notation leaves no choice: a digit or gray level half-way between two entries, and the way high
# colours are expressed on a 24-bit screen, are left to the AttrSpec-based expectation.
BASIC_NAMES = ["black", "dark red", "dark green", "brown", "dark blue", "dark magenta", "dark cyan", "light gray",
               "dark gray", "light red", "light green", "yellow", "light blue", "light magenta", "light cyan", "white"]  # fmt: skip
SETTING_NAMES = ("bold", "underline", "standout", "blink", "italics", "strikethrough")
CUBE_LEVELS = {256: [0x00, 0x5F, 0x87, 0xAF, 0xD7, 0xFF], 88: [0x00, 0x8B, 0xCD, 0xFF]}
GRAY_LEVELS = {256: [8 + 10 * i for i in range(24)], 88: [0x2E, 0x5C, 0x73, 0x8B, 0xA2, 0xB9, 0xD0, 0xE7]}


def _nearest(value: float, levels: list) -> int | None:
    """Index of the level nearest to value; None when two levels are (nearly) equally near."""
    d = sorted((abs(value - lv), i) for i, lv in enumerate(levels))
    if len(d) > 1 and d[1][0] - d[0][0] < 6:
        return None
    return d[0][1]


def model_colour(part: str, depth: int):  # noqa: PLR0911, PLR0912
    """("default",) | ("basic", n) | ("i", n) | ("rgb", r, g, b) | None (the model has no opinion)."""
    part = part.strip()
    if part in ("", "default"):
        return ("default",)
    if part in BASIC_NAMES:
        return ("basic", BASIC_NAMES.index(part))
    try:
        if depth in (88, 256):
            n = len(CUBE_LEVELS[depth])
            if part.startswith("h"):
                v = int(part[1:])
                return ("i", v) if 0 <= v < depth else None
            if part.startswith("#") and len(part) in (4, 7):
                digits = part[1:] if len(part) == 4 else part[1] + part[3] + part[5]
                idx = []
                for dch in digits:
                    k = _nearest(int(dch, 16) * 17, CUBE_LEVELS[depth])
                    if k is None:
                        return None
                    idx.append(k)
                return ("i", 16 + (idx[0] * n + idx[1]) * n + idx[2])
            if part.startswith("g"):
                val = int(part[2:], 16) if part.startswith("g#") else int(part[1:]) * 255 / 100
                levels = [0, *GRAY_LEVELS[depth], 255]
                k = _nearest(val, levels)
                if k is None:
                    return None
                if k == 0:
                    return ("i", 16)
                if k == len(levels) - 1:
                    return ("i", 16 + n**3 - 1)
                return ("i", 16 + n**3 + k - 1)
            return None
        if depth == 2**24 and part.startswith("#") and len(part) == 7:
            v = int(part[1:], 16)
            return ("rgb", v >> 16, (v >> 8) & 255, v & 255)
    except ValueError:
        return None
    return None


def model_attr(fg_desc: str, bg_desc: str, depth: int, fg_bright_is_bold: bool, bg_bright_is_blink: bool):
    """Terminal-side attributes of (foreground, background) descriptions from the notation alone; None when the
    model has no opinion on one of the colours."""
    flags = dict.fromkeys(SETTING_NAMES, False)
    fg = bg = ("default",)
    for part in fg_desc.split(","):
        part = part.strip()  # noqa: PLW2901
        if part in SETTING_NAMES:
            flags[part] = True
        elif part:
            fg = model_colour(part, depth)
    for part in bg_desc.split(","):
        if part.strip():
            bg = model_colour(part, depth)
    if fg is None or bg is None:
        return None
    out = []
    for c, bright_flag, setting in ((fg, fg_bright_is_bold, "bold"), (bg, bg_bright_is_blink, "blink")):
        if c[0] == "default":
            out.append(DEFAULT)
        elif c[0] == "basic":
            if c[1] > 7 and bright_flag:
                out.append(("i", c[1] - 8))
                flags[setting] = True
            else:
                out.append(("i", c[1]))
        else:
            out.append(c)
    return Attr(out[0], out[1], flags["bold"], flags["italics"], flags["underline"], flags["blink"], flags["standout"], flags["strikethrough"])


def make_attr_catalogue():
    cat = [None]
    cat += [p[0] for p in PALETTE]
    cat += ["undefined-name", "alias"]
    cat += [("spec", i) for i in range(len(SPEC_ATTRS))]
    return cat


CATALOGUE = make_attr_catalogue()


def expected_attr(spec, fg_bright_is_bold: bool, bg_bright_is_blink: bool) -> Attr:
    """Terminal-side attributes of an AttrSpec, computed through its public properties only."""
    bold, blink = bool(spec.bold), bool(spec.blink)
    if spec.foreground_true:
        fg = ("rgb", *spec.get_rgb_values()[0:3])
    elif spec.foreground_high:
        fg = ("i", spec.foreground_number)
    elif spec.foreground_basic:
        n = spec.foreground_number
        if n > 7 and fg_bright_is_bold:
            fg = ("i", n - 8)
            bold = True
        else:
            fg = ("i", n)
    else:
        fg = DEFAULT
    if spec.background_true:
        bg = ("rgb", *spec.get_rgb_values()[3:6])
    elif spec.background_high:
        bg = ("i", spec.background_number)
    elif spec.background_basic:
        n = spec.background_number
        if n > 7 and bg_bright_is_blink:
            bg = ("i", n - 8)
            blink = True
        else:
            bg = ("i", n)
    else:
        bg = DEFAULT
    return Attr(fg, bg, bold, bool(spec.italics), bool(spec.underline), blink, bool(spec.standout), bool(spec.strikethrough))


def visible_key(ch: str, a: Attr, cs: str, wide: int):
    """What a user can tell apart: on a blank cell only the effective background and underline."""
    if ch == " " and cs != "0":
        eff_bg = a.fg if a.reverse else a.bg
        return (" ", eff_bg, a.underline, wide)
    return (ch, a.key(), cs, wide)


class _Run:
    def __init__(self, scen: dict, res: Result) -> None:
        self.scen = scen
        self.res = res
        self.ctl_utf8 = False

    def violate(self, clause, sig, msg=""):
        if self.ctl_utf8:
            # urwid's width arithmetic gives C0 control characters width 0 in UTF-8 mode while the raw
            # display paints them as '?': every row that holds one is one column too long.  Recorded
            # as a known finding; the tag keeps every other violation distinguishable from it.
            sig += " [frame-has-C0-control-char-in-utf8-mode]"
        self.res.violate(P, clause, sig, msg)
        self.world.log.add("violation", f"{clause} {sig}")

    # ------------------------------------------------------------------------------------
    def palette_spec(self, name: str):
        """AttrSpec of a palette entry at the active colour depth, from the documented rule."""
        from urwid.display.common import AttrSpec  # noqa: PLC0415

        if name == "alias":
            name = "p1"
        for p in self.pal:
            if p[0] == name:
                _, fg, bg, mono, fgh, bgh = p
                c = self.colors
                if c == 1:
                    return AttrSpec(mono or "default", "default", 1)
                if c == 16:
                    return AttrSpec(fg, bg, 16)
                return AttrSpec(fg if fgh is None else fgh, bg if bgh is None else bgh, c)
        return None

    def palette_desc(self, name: str):
        """(foreground, background, depth) descriptions of a palette entry at the active colour depth."""
        if name == "alias":
            name = "p1"
        for p in self.pal:
            if p[0] == name:
                _, fg, bg, mono, fgh, bgh = p
                c = self.colors
                if c == 1:
                    return (mono or "default", "default", 1)
                if c == 16:
                    return (fg, bg, 16)
                return (fg if fgh is None else fgh, bg if bgh is None else bgh, c)
        return None

    def resolve(self, key) -> Attr:
        from urwid.display.common import AttrSpec  # noqa: PLC0415

        if (key is None and len(self.pal) == len(PALETTE)) or key == "undefined-name":
            spec = AttrSpec("default", "default")
        elif isinstance(key, (tuple, list)):
            fg, bg, c = SPEC_ATTRS[key[1]]
            spec = AttrSpec(fg, bg, c)
            m = model_attr(fg, bg, c, self.screen.fg_bright_is_bold, self.screen.bg_bright_is_blink)
            if m is not None:
                self.res.probe("attr_expected_from_notation_model")
                return m
        else:
            desc = self.palette_desc(key)
            if desc is not None:
                m = model_attr(*desc, self.screen.fg_bright_is_bold, self.screen.bg_bright_is_blink)
                if m is not None:
                    self.res.probe("attr_expected_from_notation_model")
                    return m
            spec = self.palette_spec(key)
        return expected_attr(spec, self.screen.fg_bright_is_bold, self.screen.bg_bright_is_blink)

    def canvas_attr(self, key):
        from urwid.display.common import AttrSpec  # noqa: PLC0415

        if isinstance(key, (tuple, list)):
            fg, bg, c = SPEC_ATTRS[key[1]]
            return AttrSpec(fg, bg, c)
        return key

    # ------------------------------------------------------------------------------------
    def build_canvas(self, f: dict, cols: int, rows: int):
        """TextCanvas of exactly cols x rows from a frame spec (rows cut / padded to fit)."""
        import urwid  # noqa: PLC0415

        enc = ENC[self.enc]
        text, attr, cs = [], [], []
        exp_rows = []
        for y in range(rows):
            segs = f["rows"][y] if y < len(f["rows"]) else []
            tb = b""
            arle, crle = [], []
            exp = []
            used = 0
            for seg in segs:
                a_key = CATALOGUE[seg["a"] % len(CATALOGUE)]
                a_obj = self.canvas_attr(a_key)
                c = seg.get("cs")
                if c and self.enc == "utf8":
                    c = None  # charset switching is only used with non-utf8 encodings
                chunk = b""
                for ch in seg["t"]:
                    if c:
                        b = ch.encode("latin-1")
                        w = 1
                    else:
                        try:
                            b = ch.encode(enc)
                        except UnicodeEncodeError:
                            b, ch = b"?", "?"
                        w = 1 if ord(ch) < 32 else char_width(ch)
                    if used + w > cols:
                        break
                    if ord(ch) < 32 and not c and self.enc == "utf8":
                        self.ctl_utf8 = True
                    if w == 0 and not exp:
                        continue
                    used += w
                    chunk += b
                    shown = "?" if ord(ch) < 32 and c != "U" else ch
                    cell_cs = "0" if (c == "0" and "\x5f" <= ch <= "\x7e") else ("U" if c == "U" else "B")
                    if w == 0:
                        exp[-1 if exp[-1][3] != 2 else -2][0] += shown
                    elif w == 2:
                        exp.append([shown, a_key, cell_cs, 1])
                        exp.append(["", a_key, cell_cs, 2])
                    else:
                        exp.append([shown, a_key, cell_cs, 0])
                if chunk:
                    tb += chunk
                    arle.append((a_obj, len(chunk)))
                    crle.append((c, len(chunk)))
            while len(exp) < cols:
                exp.append([" ", None, "B", 0])
            text.append(tb)
            attr.append(arle)
            cs.append(crle)
            exp_rows.append(exp)
        cursor = None
        if f.get("cursor"):
            cursor = (f["cursor"][0] % cols, f["cursor"][1] % rows)
        canv = urwid.TextCanvas(text, attr, cs, cursor=cursor, maxcol=cols)
        if f.get("wrap") == "composite":
            canv = urwid.CompositeCanvas(canv)
        return canv, exp_rows, cursor

    # ------------------------------------------------------------------------------------
    def compare(self, exp_rows, cursor, what: str) -> bool:
        term = self.term
        if self.partial:
            # normal screen buffer: the display owns the rows down to the last one that ever held something other than
            # spaces ("leave blank lines off display"); below that the terminal keeps what it had - nothing
            self.rows_owned = max([self.rows_owned, *(y for y, exp in enumerate(exp_rows) if any(c[0] != " " for c in exp))])
        for y, exp in enumerate(exp_rows):
            row = term.grid[y]
            if self.partial and y > self.rows_owned:
                if term.row_text(y).strip():
                    self.violate("C04.1", f"cell-text-differ {what} [below the rows in use]", f"row {y} is below the rows the display uses ({self.rows_owned}) and shows {term.row_text(y)!r}")
                    return False
                continue
            spaces_only = self.partial and all(c[0] == " " for c in exp)
            for x, (ch, a_key, cs, wide) in enumerate(exp):
                c = row[x]
                want = visible_key(ch, self.resolve(a_key), cs, wide)
                got = visible_key(c.ch, c.attr, c.cs, c.wide)
                if spaces_only and want != got and c.ch == " ":
                    # "leave blank lines off display when we are using the default screen buffer": a row of spaces may be
                    # left as the terminal had it, whatever its attribute (text is still compared)
                    self.res.probe("normal_buffer_row_of_spaces_left_off")
                    continue
                if want != got:
                    kind = "text" if (want[0] != got[0] or want[-1] != got[-1]) else "attributes"
                    self.violate(
                        "C04.1",
                        f"cell-{kind}-differ {what}",
                        f"cell ({x},{y}): terminal {c!r} expected ch={ch!r} attr={self.resolve(a_key)!r} cs={cs} wide={wide} "
                        f"[attr key {a_key!r}, colors {self.colors}] row on terminal: {term.row_text(y)!r}",
                    )
                    return False
        if cursor is None:
            if term.cursor_visible:
                self.violate("C04.2", f"cursor-visible-without-canvas-cursor {what}", f"at {(term.x, term.y)}")
                return False
        elif not term.cursor_visible or (term.x, term.y) != tuple(cursor):
            self.violate("C04.2", f"cursor-misplaced {what}", f"terminal {(term.x, term.y, term.cursor_visible)} canvas {cursor}")
            return False
        return True

    # ------------------------------------------------------------------------------------
    def run(self) -> str:  # noqa: C901, PLR0912, PLR0915
        import urwid  # noqa: PLC0415
        from urwid.display import _posix_raw_display as prd  # noqa: PLC0415

        scen, res = self.scen, self.res
        cfg = scen["config"]
        w = self.world = W.World()
        W.activate(w)
        self.enc = cfg["enc"]
        self.colors = cfg["colors"]
        self.pal = PALETTE + ([NONE_ENTRIES[cfg["none_entry"]]] if cfg.get("none_entry") is not None else [])
        if cfg.get("none_entry") is not None:
            res.probe("palette_entry_none_registered")
        old_handlers = {s: signal.getsignal(s) for s in (signal.SIGWINCH, signal.SIGTSTP, signal.SIGCONT)}
        urwid.util.set_encoding(ENC[self.enc])
        try:
            cols, rows = cfg["size"]
            tty = W.SimTTY(w, "tty", cols, rows)
            term = self.term = RefTerm(cols, rows, bce=True)
            out = W.SimTTYOut(w, tty, term)
            out.bufsize = int(cfg.get("outbuf", 0))
            if out.bufsize:
                res.probe("buffered_output_stream")
            screen = self.screen = prd.Screen(input=W.SimTTYIn(tty), output=out)
            screen.back_color_erase = cfg.get("bce", True)
            screen.fg_bright_is_bold = cfg.get("bright_is_bold", False)
            screen.bg_bright_is_blink = cfg.get("bright_is_blink", False)
            screen.set_terminal_properties(colors=self.colors, bright_is_bold=cfg.get("bright_is_bold", False))
            for p in self.pal:
                screen.register_palette_entry(*p)
            screen.register_palette([("alias", "p1")])
            w.log.add("cfg", [self.enc, self.colors, cols, rows, cfg.get("bce", True), cfg.get("bright_is_bold", False), cfg.get("bright_is_blink", False)])
            self.partial = cfg.get("altbuf") is False
            self.rows_owned = 0
            if cfg.get("altbuf") is False:
                # the normal screen buffer ("partial display": the frame is drawn from the cursor's row downwards with
                # relative moves, blank rows at the bottom are left alone); the terminal is blank with the cursor at home
                screen.start(alternate_buffer=False)
                res.probe("normal_screen_buffer")
            else:
                screen.start()
            size = screen.get_cols_rows()
            pending_in_write = None  # (write index, cols, rows) for the next frame
            resized_during = [False]
            frame_writes = [0]
            n_frame = 0
            unsynced_since_resize = False
            last_frame = None

            def deliver(c2, r2):
                tty.cols, tty.rows = c2, r2
                term.resize(c2, r2)
                h = signal.getsignal(signal.SIGWINCH)
                if callable(h):
                    h(signal.SIGWINCH, None)

            def on_write(idx, data):
                frame_writes[0] += 1
                nonlocal pending_in_write
                if pending_in_write is not None and frame_writes[0] == pending_in_write[0]:
                    _, c2, r2 = pending_in_write
                    pending_in_write = None
                    w.log.add("sigwinch", ["in-write", frame_writes[0], c2, r2])
                    res.fault("sigwinch_inside_write")
                    resized_during[0] = True
                    deliver(c2, r2)

            out.on_write = on_write
            for op in scen["ops"]:
                k = op["op"]
                try:
                    if k == "frame":
                        n_frame += 1
                        reused = bool(op.get("again")) and last_frame is not None and last_frame[3] == tuple(size)
                        if reused:
                            # the application draws the very same canvas object again (MainLoop re-rendering an
                            # unchanged widget gets it back from the canvas cache)
                            canv, exp_rows, cursor = last_frame[:3]
                            res.probe("same_canvas_object_drawn_again")
                        else:
                            canv, exp_rows, cursor = self.build_canvas(op["f"], size[0], size[1])
                        last_frame = (canv, exp_rows, cursor, tuple(size))
                        frame_writes[0] = 0
                        resized_during[0] = False
                        was_resized = screen._resized  # noqa: SLF001
                        right_size = tuple(size) == (tty.cols, tty.rows)
                        scroll0 = term.scroll_events
                        had_buf = bool(screen.screen_buf)
                        screen.draw_screen(tuple(size), canv)
                        wrote = frame_writes[0] > 0
                        w.log.add("frame", [n_frame, list(size), wrote, was_resized, right_size, resized_during[0]])
                        if pending_in_write is not None:
                            pending_in_write = None  # the frame had fewer writes than planned
                        if was_resized:
                            res.probe("frame_skipped_resize_pending")
                        if not right_size:
                            res.probe("frame_drawn_with_stale_size")
                        if wrote and right_size and not was_resized and not resized_during[0]:
                            what = "after-resize" if unsynced_since_resize else ("incremental" if had_buf else "full-repaint")
                            if term.scroll_events != scroll0:
                                self.violate("C04.3", f"screen-scrolled {what}", f"frame {n_frame}: {term.scroll_events - scroll0} scroll events")
                            ok = self.compare(exp_rows, cursor, what)
                            res.probe(f"frame_compared_{what}")
                            if had_buf:
                                res.states.add(f"{self.colors}/{self.enc}/{what}/{cursor is not None}")
                            unsynced_since_resize = False
                            if not ok:
                                break
                        elif not wrote and right_size and not was_resized and reused:
                            # nothing written for a canvas that was drawn before: right exactly when the terminal
                            # still shows it (no clear, no resize since)
                            if not self.compare(exp_rows, cursor, "same-canvas-again"):
                                break
                            res.probe("same_canvas_again_nothing_written")
                        elif not wrote and right_size and not was_resized:
                            self.violate("C04.1", "frame-not-drawn", f"frame {n_frame}")
                    elif k == "clear":
                        screen.clear()
                        w.log.add("clear", "")
                    elif k == "resize_event":
                        c2, r2 = op["cols"], op["rows"]
                        if op.get("at") == "write":
                            pending_in_write = (int(op.get("k", 1)), c2, r2)
                        else:
                            w.log.add("sigwinch", ["between", c2, r2])
                            res.fault("sigwinch_between_frames")
                            if screen._resized:  # noqa: SLF001
                                res.fault("sigwinch_twice_in_a_row")
                            deliver(c2, r2)
                        unsynced_since_resize = True
                    elif k == "handle_resize":
                        keys, _raw = screen.parse_input(None, None, screen.get_available_raw_input())
                        size = screen.get_cols_rows()
                        w.log.add("handle_resize", [repr(keys), list(size)])
                    elif k == "query_size":
                        size = screen.get_cols_rows()
                        w.log.add("query_size", list(size))
                    elif k == "term_props":
                        self.colors = op["colors"]
                        if op.get("bib") is None:
                            screen.set_terminal_properties(colors=self.colors)
                        else:
                            # the bright-is-bold setting (with or without another colour depth): the escape sequence of
                            # every bright basic foreground changes, so rows that are drawn again unchanged must be repainted
                            screen.set_terminal_properties(colors=self.colors, bright_is_bold=bool(op["bib"]))
                            res.probe("bright_is_bold_changed_between_frames")
                        w.log.add("term_props", [self.colors, op.get("bib")])
                    elif k == "html_frame":
                        self.html_frame(op["f"], size)
                except Exception as e:  # noqa: BLE001
                    if core.raised_in_harness(e):
                        raise core.HarnessError(f"harness exception in op {k}: {core.format_exc(e)}") from e
                    self.violate("C04.1" if k != "html_frame" else "C04.5", f"{k}-raised:{core.exc_signature(e)}", core.format_exc(e))
                    break
            if term.unknown:
                self.violate("C04.1", "unknown-control-sequence-written", repr(term.unknown_list))
            for s in ("\x1b[K", "\x1b[4h", "\x0e"):
                pass
            screen.stop()
            res.sim_time += 0.0
            for kf, v in w.faults.items():
                res.fault(kf, v)
        finally:
            W.deactivate()
            urwid.util.set_encoding("utf-8")
            for s, h in old_handlers.items():
                signal.signal(s, h if h is not None else signal.SIG_DFL)
        return w.log.digest()

    # ------------------------------------------------------------------------------------
    def html_frame(self, f: dict, size) -> None:
        """Clause 5: the HTML screenshot back-end emits exactly the canvas text, escaped."""
        from urwid.display.html_fragment import HtmlGenerator  # noqa: PLC0415

        canv, exp_rows, cursor = self.build_canvas(f, size[0], size[1])
        HtmlGenerator.fragments = []
        HtmlGenerator.sizes = []
        HtmlGenerator.keys = []
        HtmlGenerator.started = True
        g = HtmlGenerator()
        g.set_terminal_properties(colors=self.colors)
        for p in self.pal:
            g.register_palette_entry(*p)
        g.register_palette([("alias", "p1")])
        HtmlGenerator.sizes = [tuple(size)]
        g.draw_screen(tuple(size), canv)
        frag = HtmlGenerator.fragments[-1]
        HtmlGenerator.fragments = []
        rows_got = parse_html_rows(frag)
        if rows_got is None:
            self.violate("C04.5", "html-not-a-pre-block", frag[:200])
            return
        want = ["".join(c[0] for c in row) for row in exp_rows]
        got = ["".join(ch for ch, _st in row) for row in rows_got]
        self.res.probe("html_frame_checked")
        if got != want:
            self.violate("C04.5", "html-text-differs", f"a browser shows {got!r}, the canvas holds {want!r}")
            return
        # at most one highlighted cursor cell: the same canvas drawn without its cursor differs in the style of exactly
        # the character in the cursor cell
        if cursor is None:
            return
        import urwid  # noqa: PLC0415

        plain = urwid.CompositeCanvas(canv)
        plain.cursor = None
        g.draw_screen(tuple(size), plain)
        rows_plain = parse_html_rows(HtmlGenerator.fragments[-1])
        HtmlGenerator.fragments = []
        if rows_plain is None or ["".join(ch for ch, _st in row) for row in rows_plain] != want:
            self.violate("C04.5", "html-text-differs", "the same canvas without its cursor")
            return
        differs = []
        for y, (a, b) in enumerate(zip(rows_got, rows_plain)):
            col = 0
            for (ch, st1), (_ch2, st2) in zip(a, b):
                w = max(1, char_width(ch)) if char_width(ch) else 0
                if st1 != st2:
                    differs.append((col, y, ch))
                col += w
        if len(differs) > 1:
            self.violate("C04.5", "html-more-than-one-cursor-cell", f"characters highlighted: {differs!r}, cursor {cursor}")
        elif differs and (differs[0][1] != cursor[1] or not differs[0][0] <= cursor[0] < differs[0][0] + max(1, char_width(differs[0][2]))):
            self.violate("C04.5", "html-cursor-highlights-another-cell", f"highlighted {differs[0]!r}, cursor {cursor}")
        else:
            self.res.probe("html_cursor_checked")


def parse_html_rows(frag: str):
    """The <pre> fragment as a browser reads it: per row a list of (character, style of the enclosing span).  Character
    references are resolved per text node, as an HTML parser does - a reference cut in two by a tag is not one."""
    from html.parser import HTMLParser  # noqa: PLC0415

    class P_(HTMLParser):
        def __init__(self):
            super().__init__(convert_charrefs=True)
            self.rows = [[]]
            self.style = [None]
            self.in_pre = 0
            self.saw_pre = False

        def handle_starttag(self, tag, attrs):
            if tag == "pre":
                self.in_pre += 1
                self.saw_pre = True
            elif tag == "span":
                self.style.append(dict(attrs).get("style"))

        def handle_endtag(self, tag):
            if tag == "pre":
                self.in_pre -= 1
            elif tag == "span" and len(self.style) > 1:
                self.style.pop()

        def handle_data(self, data):
            if not self.in_pre:
                return
            for ch in data:
                if ch == "\n":
                    self.rows.append([])
                else:
                    self.rows[-1].append((ch, self.style[-1]))

    p_ = P_()
    p_.feed(frag)
    p_.close()
    if not p_.saw_pre:
        return None
    rows = p_.rows
    if rows and rows[0] == [] and frag.lstrip().startswith("<pre") and "\n" == frag[frag.index(">") + 1 : frag.index(">") + 2]:
        rows = rows[1:]  # a newline right after <pre> is ignored by browsers
    if rows and rows[-1] == []:
        rows = rows[:-1]
    return rows


class DisplayEngine(Engine):
    prop = P
    name = "display"
    level = "exploration"
    tiers = {"quick": 30000, "thorough": 1500000}
    rule = (
        "seeded frame histories (1-12 TextCanvas/CompositeCanvas frames of generated attribute/charset/text runs incl. "
        "wide, combining, DEC-special and control characters, palette names, unregistered names, AttrSpec objects, None; "
        "frames biased to differ from the previous one in a few rows; trailing blanks, full rows, non-blank bottom-right "
        "cell; with/without cursor) on terminals 1x1..40x12, colours in {1,16,88,256,2^24}, back_color_erase on/off, "
        "bright-is-bold/blink, utf-8 / narrow / wide output encodings, interleaved with clear(), set_terminal_properties and "
        "SIGWINCH at scheduled points (between frames, after the size query, inside the k-th write() of a frame, twice in a "
        "row, with and without a size change). Non-trivial: at least one incremental frame was compared or a SIGWINCH "
        "fired; distinct = distinct event-log digests among those."
    )
    assumptions = [
        "RefTerm (simkit/refterm.py, written from the VT100/xterm documents) is the terminal; on resize it keeps content anchored top-left like xterm",
        "blank cells are compared by effective background and underline only (what a user can see)",
        "palette changes after start() without clear() are not generated (urwid documents no repaint for them)",
        "one session in eight runs on the normal screen buffer (start(alternate_buffer=False), the terminal blank with the cursor at home): no window changes and no C0 control characters there; rows below the last one that ever held a non-space character belong to the terminal (they must stay empty), and a row of spaces may be left as the terminal had it whatever its attribute (urwid leaves blank lines off that display by design)",
        "character widths by Unicode east-asian-width/combining class; generators use characters on which urwid's table agrees",
    ]
    components = {
        "real": ["_posix_raw_display.Screen / _raw_display_base.Screen.draw_screen, _last_row, _attrspec_to_escape, clear, set_terminal_properties", "escape constants", "AttrSpec", "TextCanvas/CompositeCanvas", "HtmlGenerator"],
        "stub": ["tty (fake fd, TIOCGWINSZ)", "resize socket pair", "signal delivery (handler called at scheduled write)", "terminal (RefTerm)"],
    }
    required_probes = ("frame_compared_incremental", "frame_compared_after-resize", "frame_skipped_resize_pending", "frame_drawn_with_stale_size", "palette_entry_none_registered", "normal_screen_buffer")
    reducible = ("ops",)
    _ctl = False

    # ---- generation ----------------------------------------------------------------------
    def gen_seg_text(self, rng: random.Random, enc: str, width: int) -> tuple[str, str | None]:
        r = rng.random()
        ctl = self._ctl
        if r < 0.12 and enc != "utf8":
            return "".join(rng.choice(DEC_ALT + "ab") for _ in range(width)), "0"
        if r < 0.15 and enc != "utf8":
            return "".join(chr(rng.randrange(0x20, 0x7F)) for _ in range(width)), "U"
        out = ""
        used = 0
        while used < width:
            q = rng.random()
            if q < 0.12 and enc not in ("narrow", "narrow2") and used + 2 <= width:
                out += rng.choice(WIDE2_CHARS if enc == "wide2" else WIDE_CHARS)
                used += 2
            elif q < 0.16 and enc == "utf8" and out and out[-1] not in WIDE_CHARS and ord(out[-1]) > 32:
                out += COMBINING
            elif q < 0.19 and ctl:
                out += chr(rng.choice([1, 7, 9, 10, 27, 31]))
                used += 1
            elif q < 0.45:
                out += " "
                used += 1
            elif q < 0.5 and enc not in ("wide", "wide2"):
                out += rng.choice(NARROW2_CHARS) if enc == "narrow2" else rng.choice("éüñ") if enc in ("utf8", "narrow") else "e"
                used += 1
            else:
                out += chr(rng.randrange(0x21, 0x7F))
                used += 1
        return out, None

    def gen_row(self, rng: random.Random, enc: str, cols: int) -> list[dict]:
        style = rng.random()
        segs = []
        if style < 0.1:
            return []  # blank row
        remaining = cols if style < 0.7 else rng.randint(0, cols)  # full row or short row (padded)
        while remaining > 0:
            wdt = rng.randint(1, remaining)
            t, cs = self.gen_seg_text(rng, enc, wdt)
            seg = {"a": rng.randrange(len(CATALOGUE)), "t": t}
            if cs:
                seg["cs"] = cs
            segs.append(seg)
            remaining -= wdt
            if rng.random() < 0.3:
                break
        if rng.random() < 0.35 and segs:
            # trailing blanks so that the erase-to-end-of-line shortcut triggers
            segs.append({"a": rng.randrange(len(CATALOGUE)), "t": " " * rng.randint(1, 6)})
        return segs

    def gen_frame(self, rng: random.Random, enc: str, cols: int, rows: int, prev: dict | None) -> dict:
        maxr = 14
        if prev is not None and rng.random() < 0.75:
            f = {"rows": [list(r) for r in prev["rows"]], "cursor": prev.get("cursor"), "wrap": prev.get("wrap")}
            for _ in range(rng.randint(0, 3)):
                f["rows"][rng.randrange(maxr)] = self.gen_row(rng, enc, 44)
        else:
            f = {"rows": [self.gen_row(rng, enc, 44) for _ in range(maxr)], "cursor": None, "wrap": rng.choice(["text", "composite"])}
        if rng.random() < 0.4:
            f["cursor"] = [rng.randrange(44), rng.randrange(maxr)] if rng.random() < 0.7 else None
        return f

    def generate(self, rng: random.Random, tier: str) -> dict:
        enc = rng.choice(["utf8", "utf8", "utf8", "narrow", "wide", "narrow2", "wide2"])
        # C0 control characters in canvas text: always possible in narrow/wide encodings, only in a
        # fraction of the UTF-8 runs (there they hit a known finding that masks everything else)
        self._ctl = rng.random() < (0.5 if enc != "utf8" else 0.15)
        altbuf_off = rng.random() < 0.12
        if altbuf_off:
            self._ctl = False  # (a row of C0 whitespace counts as blank there although it is painted as '?')
        cols, rows = rng.choice([(1, 1), (2, 2), (1, 5), (7, 1), (10, 4), (20, 6), (40, 12), (rng.randint(1, 40), rng.randint(1, 12))])
        cfg = {
            "enc": enc,
            "colors": rng.choice(COLORS),
            "size": [cols, rows],
            "bce": rng.random() < 0.7,
            "bright_is_bold": rng.random() < 0.5,
            "bright_is_blink": rng.random() < 0.3,
            "outbuf": rng.choice([0, 0, 64, 1 << 16]),
        }
        if rng.random() < 0.2:
            cfg["none_entry"] = rng.randrange(len(NONE_ENTRIES))
        if altbuf_off:
            cfg["altbuf"] = False  # start(alternate_buffer=False); no window changes there (a terminal reflows its normal buffer)
        ops = []
        prev = None
        n = rng.randint(1, 12)
        resizes = 0
        cur = (cols, rows)  # the size the application will see after the last handled resize
        for _ in range(n):
            r = rng.random()
            if r < 0.07 and prev is not None:
                ops.append({"op": "frame", "f": prev, "again": True})
            elif r < 0.62:
                prev = self.gen_frame(rng, enc, cols, rows, prev)
                ops.append({"op": "frame", "f": prev})
            elif r < 0.70:
                ops.append({"op": "clear"})
            elif r < 0.88 and resizes < 3 and not altbuf_off:
                resizes += 1
                c2, r2 = rng.choice([(cols, rows), (max(1, cols - 3), rows), (cols, max(1, rows - 1)), (cols + 4, rows + 2), (rng.randint(1, 40), rng.randint(1, 12))])
                mode = rng.random()
                if mode < 0.45:
                    ops.append({"op": "resize_event", "cols": c2, "rows": r2, "at": "write", "k": rng.randint(1, 30)})
                    prev = self.gen_frame(rng, enc, cols, rows, prev)
                    ops.append({"op": "frame", "f": prev})
                elif mode < 0.6:
                    ops.append({"op": "query_size"})
                    ops.append({"op": "resize_event", "cols": c2, "rows": r2})
                    prev = self.gen_frame(rng, enc, cols, rows, prev)
                    ops.append({"op": "frame", "f": prev})
                else:
                    ops.append({"op": "resize_event", "cols": c2, "rows": r2})
                    q = rng.random()
                    if q < 0.25:
                        r2 = max(1, r2 - 1)
                        ops.append({"op": "resize_event", "cols": c2, "rows": r2})
                    elif q < 0.5:
                        # ... and back to the size the application last drew at (maximise and restore): the terminal
                        # has lost part of the frame although the size the application sees has not changed
                        ops.append({"op": "resize_event", "cols": cur[0], "rows": cur[1]})
                        c2, r2 = cur
                if rng.random() < 0.3:
                    prev = self.gen_frame(rng, enc, cols, rows, prev)
                    ops.append({"op": "frame", "f": prev})
                ops.append({"op": "handle_resize"})
                cur = (c2, r2)
                if prev is not None and rng.random() < 0.3:
                    ops.append({"op": "frame", "f": prev, "again": True})
                else:
                    prev = self.gen_frame(rng, enc, cols, rows, prev)
                    ops.append({"op": "frame", "f": prev})
            elif r < 0.93:
                tp = {"op": "term_props", "colors": rng.choice(COLORS)}
                if rng.random() < 0.5:
                    tp = {"op": "term_props", "colors": cfg["colors"] if rng.random() < 0.7 else rng.choice(COLORS), "bib": rng.random() < 0.5}
                ops.append(tp)
                if prev is not None and rng.random() < 0.5:
                    # ... followed by a frame that repeats most rows of the previous one
                    prev = self.gen_frame(rng, enc, cols, rows, prev)
                    ops.append({"op": "frame", "f": prev})
            elif prev is not None:
                ops.append({"op": "html_frame", "f": prev})
        if not any(o["op"] == "frame" for o in ops):
            ops.append({"op": "frame", "f": self.gen_frame(rng, enc, cols, rows, None)})
        return {"config": cfg, "ops": ops}

    def execute(self, scen: dict) -> Result:
        res = Result()
        run = _Run(scen, res)
        res.digest = run.run()
        if any(k.startswith("frame_compared_incremental") or k.startswith("frame_compared_after") for k in res.probes) or any(k.startswith("sigwinch") for k in res.faults):
            res.nontrivial = True
        if os.environ.get("VERIF_KEEP_LOG"):
            res.info["log"] = run.world.log.lines
        return res

    def simplify(self, scen: dict):
        cfg = scen["config"]
        for fld, val in (("bce", True), ("bright_is_bold", False), ("bright_is_blink", False)):
            if cfg.get(fld) != val:
                yield dict(scen, config=dict(cfg, **{fld: val}))
        # drop rows / segments of frames
        for i, op in enumerate(scen["ops"]):
            if op["op"] not in ("frame", "html_frame"):
                continue
            f = op["f"]
            for y, row in enumerate(f["rows"]):
                if row:
                    ops = list(scen["ops"])
                    f2 = dict(f, rows=[r if j != y else [] for j, r in enumerate(f["rows"])])
                    ops[i] = dict(op, f=f2)
                    yield dict(scen, ops=ops)
            if f.get("cursor"):
                ops = list(scen["ops"])
                ops[i] = dict(op, f=dict(f, cursor=None))
                yield dict(scen, ops=ops)


ENGINE = DisplayEngine()
