"""C13 - every event loop honours the alarm / watch / idle / exception contract  (engine `loops`)

Each bundled loop class runs alone, real, on the simulated world, under a scripted user program:
callbacks perform API calls re-entrantly, read or do not read the descriptor they watch, return
arbitrary values, or raise.  Oracle: trace contract checker (DESIGN.md section 5, C13).
"""

from __future__ import annotations

import contextlib
import io
import os
import random

from simkit import core, loops
from simkit import world as W
from simkit.core import Livelock, Quiescent
from simkit.runner import Engine, Result

P = "C13"
LONG = 0.01  # a block that waits longer than this is "the loop goes quiescent / waits"
GRID = [0.0, 0.0, 1 / 1024, 0.125, 0.25, 0.25, 0.5, 0.5, 0.75, 1.0, 1.5]
RETVALS = [None, True, False, 1, 0, "x", [1]]
EXC_KINDS = ("exit", "value", "boom")


class Boom(Exception):
    pass


def _group_contains(group, exc) -> bool:
    return any(e is exc or (isinstance(e, BaseExceptionGroup) and _group_contains(e, exc)) for e in group.exceptions)


class _Run:
    def __init__(self, scen: dict, res: Result) -> None:
        self.scen = scen
        self.res = res
        cfg = scen["config"]
        self.kind = cfg["loop"]
        self.world = W.World(tiebreak=cfg.get("tiebreak", ()))
        W.activate(self.world)
        self.box = loops.make_loop(self.kind, self.world)
        self.loop = self.box.loop
        self.decoy = None
        if scen["config"].get("decoy") and "make_decoy" in self.box.extra:
            # another urwid loop object that shares the asyncio loop / IOLoop / reactor, constructed later, never run
            self.decoy = self.box.extra["make_decoy"]()
            res.probe("second_loop_object_on_the_same_backend")
        self.log = self.world.log
        self.alarms: dict[int, dict] = {}
        self.watches: dict[int, dict] = {}
        self.idles: dict[int, dict] = {}
        self.pipes: dict[int, W.ByteQueue] = {}
        self.inv: dict[tuple, int] = {}
        self.ops_at: dict[tuple, list] = {}
        for op in scen["ops"]:
            at = op.get("at", "pre")
            key = ("pre",) if at == "pre" else (at[0], at[1], at[2])
            self.ops_at.setdefault(key, []).append(op)
        # second run() of the same loop object after the first one has ended (scenario key "restart")
        for op in scen.get("restart", {}).get("ops", []):
            at = op.get("at", "pre")
            key = ("pre2",) if at == "pre" else (at[0], at[1], at[2])
            self.ops_at.setdefault(key, []).append(op)
        self.phase = 1
        self.rets = {(r[0], r[1]): r[2] for r in scen.get("rets", [])}
        self.read_plans = {int(k): list(v) for k, v in scen.get("read_plans", {}).items()}
        self.dirty_seq = 0  # seq of latest alarm/watch callback entry not yet followed by idle
        self.raised = None  # (exception object, kind, seq)
        self.in_run = False
        self.world.on_block = self.on_block
        self.cb_count = 0
        self.fired_order: list[int] = []
        self.final_ran = False

    second_raise = None

    def violate(self, clause, sig, msg=""):
        self.res.violate(P, clause, f"{sig} loop={self.kind}", msg)
        self.log.add("violation", f"{clause} {sig}")

    def pipe(self, p: int) -> W.ByteQueue:
        if p not in self.pipes:
            rd, _wr = W.make_pipe(self.world, f"w{p}")
            rd.nonblocking = True
            if p == 0 and self.scen["config"].get("fd0"):
                # the first watched pipe is the program's standard input: descriptor number 0
                self.world.remap_fd(rd, 0)
                self.res.probe("watch_on_descriptor_zero")
            self.pipes[p] = rd
        return self.pipes[p]

    # ---- callbacks -----------------------------------------------------------------------
    def enter(self, kind: str, ident: int) -> int:
        k = self.inv.get((kind, ident), 0)
        self.inv[(kind, ident)] = k + 1
        self.cb_count += 1
        if self.cb_count > 300:
            raise Livelock("more than 300 callback invocations")
        seq = self.log.add("cb", [kind, ident, k])
        if not self.in_run:
            self.violate("C13.5", f"{kind}-callback-invoked-outside-run", f"{kind} {ident}")
        if self.raised is not None and kind != "idle":
            # the loop must stop; callbacks the loop had already dequeued may still run: not checked
            self.res.probe("callback_after_exception")
        return k

    def after(self, kind: str, ident: int, k: int):
        for op in self.ops_at.get((kind, ident, k), ()):
            self.perform(op, inside=(kind, ident))
        rv = self.rets.get((kind, ident), 0)
        seq = self.log.add("cb<", [kind, ident, rv])
        if kind != "idle":
            # "after any alarm or watch callback has run": idle callbacks registered up to here
            # (including by this very callback) must run before the loop next waits
            self.dirty_seq = seq
        return RETVALS[rv % len(RETVALS)]

    def make_alarm_cb(self, aid: int):
        def cb():
            k = self.enter("alarm", aid)
            a = self.alarms[aid]
            now = self.world.clock.now
            if a["state"] == "removed":
                self.violate("C13.2", "removed-alarm-fired", f"alarm {aid}")
            elif a["state"] == "fired":
                self.violate("C13.1", "alarm-fired-twice", f"alarm {aid}")
            if now < a["due"]:
                self.violate("C13.1", "alarm-fired-early", f"alarm {aid} due {self.world.rel(a['due'])} at {self.world.rel()}")
            for other in self.fired_order:
                if self.alarms[other]["due"] > a["due"]:
                    self.violate(
                        "C13.1",
                        "alarm-fired-after-later-due-alarm",
                        f"alarm {aid} due {self.world.rel(a['due'])} ran after alarm {other} due {self.world.rel(self.alarms[other]['due'])}",
                    )
                    break
            a["state"] = "fired"
            self.fired_order.append(aid)
            return self.after("alarm", aid, k)

        return cb

    def make_watch_cb(self, p: int, gen: int):
        def cb():
            k = self.enter("watch", p)
            wt = self.watches[p]
            if not wt["registered"] or wt["gen"] != gen:
                self.violate("C13.3", "removed-watch-callback-invoked", f"watch {p}")
            q = self.pipe(p)
            if not q.buf:
                self.res.probe("watch_callback_without_data")
            plan = self.read_plans.get(p, [])
            n = plan.pop(0) if plan else 1 << 16
            if n and q.buf:
                os.read(q.fd, n)
            return self.after("watch", p, k)

        return cb

    def make_idle_cb(self, iid: int, gen: int):
        def cb():
            k = self.enter("idle", iid)
            it = self.idles[iid]
            if not it["registered"] or it["gen"] != gen:
                self.violate("C13.4", "removed-idle-callback-invoked", f"idle {iid}")
            it["last_seq"] = self.log.seq
            return self.after("idle", iid, k)

        return cb

    # ---- API operations ------------------------------------------------------------------
    def perform(self, op: dict, inside=None) -> None:  # noqa: C901, PLR0912
        kind = op["op"]
        if inside is not None:
            self.res.fault(f"reentrant_{kind}")
        if kind in {"write", "raise"}:
            return self._perform(op, inside)
        try:
            return self._perform(op, inside)
        except Exception as e:  # noqa: BLE001
            if core.raised_in_harness(e):
                raise core.HarnessError(f"harness exception in API op {op}: {core.format_exc(e)}") from e
            clause = {"alarm": "C13.1", "remove_alarm": "C13.2", "watch": "C13.3", "remove_watch": "C13.3"}.get(kind, "C13.4")
            when = "in-callback" if inside else "before-run"
            self.violate(clause, f"{kind}-{when}-raised:{core.exc_signature(e)}", core.format_exc(e))
            return None

    def stopping(self) -> bool:
        """An exception (injected or the final ExitMainLoop) has been raised: the loop is
        shutting down and what API calls made by late callbacks report is left unconstrained."""
        return self.raised is not None or self.final_ran

    def _perform(self, op: dict, inside=None) -> None:  # noqa: C901, PLR0912
        kind = op["op"]
        lp = self.loop
        if kind == "alarm":
            aid = op["id"]
            if aid in self.alarms:
                return
            secs = float(op["secs"])
            now = self.world.clock.now
            self.alarms[aid] = {"due": now + secs, "state": "pending", "handle": None, "late": self.stopping()}
            h = lp.alarm(secs, self.make_alarm_cb(aid))
            self.alarms[aid]["handle"] = h
            self.log.add("api", ["alarm", aid, secs])
        elif kind == "remove_alarm":
            a = self.alarms.get(op["id"])
            if a is None:
                return
            rv = lp.remove_alarm(a["handle"])
            self.log.add("api", ["remove_alarm", op["id"], bool(rv), a["state"]])
            if a["state"] == "pending":
                if not rv and not self.stopping() and not a.get("late"):
                    self.violate("C13.2", "remove-pending-alarm-reported-failure", f"alarm {op['id']}")
                a["state"] = "removed"
                if inside and inside[0] == "alarm":
                    self.res.probe("alarm_removed_from_alarm")
            elif a["state"] == "removed":
                if rv and not self.stopping():
                    self.violate("C13.2", "second-remove-alarm-reported-success", f"alarm {op['id']}")
                self.res.probe("alarm_removed_twice")
            # removing an alarm that already fired is unspecified
        elif kind == "watch":
            p = op["p"]
            wt = self.watches.get(p)
            if wt is not None and wt["registered"]:
                return
            gen = (wt["gen"] + 1) if wt else 0
            self.watches[p] = {"registered": True, "gen": gen, "handle": None}
            h = lp.watch_file(self.pipe(p).fd, self.make_watch_cb(p, gen))
            self.watches[p]["handle"] = h
            self.log.add("api", ["watch", p])
        elif kind == "remove_watch":
            wt = self.watches.get(op["p"])
            if wt is None:
                return
            rv = lp.remove_watch_file(wt["handle"])
            self.log.add("api", ["remove_watch", op["p"], bool(rv), wt["registered"]])
            if wt["registered"]:
                if not rv and not self.stopping() and not wt.get("stale"):
                    self.violate("C13.3", "remove-registered-watch-reported-failure", f"watch {op['p']}")
                wt["registered"] = False
                if inside == ("watch", op["p"]):
                    self.res.probe("watch_removed_own_watch")
            else:
                if rv and not self.stopping():
                    self.violate("C13.3", "second-remove-watch-reported-success", f"watch {op['p']}")
                self.res.probe("watch_removed_twice")
        elif kind == "enter_idle":
            iid = op["id"]
            it = self.idles.get(iid)
            if it is not None and it["registered"]:
                return
            gen = (it["gen"] + 1) if it else 0
            self.idles[iid] = {"registered": True, "gen": gen, "handle": None, "last_seq": 0, "reg_seq": self.log.seq}
            self.idles[iid]["handle"] = lp.enter_idle(self.make_idle_cb(iid, gen))
            self.log.add("api", ["enter_idle", iid])
        elif kind == "remove_idle":
            it = self.idles.get(op["id"])
            if it is None:
                return
            rv = lp.remove_enter_idle(it["handle"])
            self.log.add("api", ["remove_idle", op["id"], bool(rv), it["registered"]])
            if it["registered"]:
                # (a registration made before an earlier run() ended is "stale": trio forgets its idle callbacks when
                # run() ends, the other loops keep them; what removing one reports is not constrained)
                if not rv and not self.stopping() and not it.get("stale"):
                    self.violate("C13.4", "remove-registered-idle-reported-failure", f"idle {op['id']}")
                it["registered"] = False
                if inside and inside[0] == "idle":
                    self.res.probe("idle_removed_from_idle")
            elif rv and not self.stopping():
                self.violate("C13.4", "second-remove-idle-reported-success", f"idle {op['id']}")
        elif kind == "write":
            self.pipe(op["p"]).feed(b"z" * int(op.get("n", 1)))
            self.log.add("api", ["write", op["p"], op.get("n", 1)])
        elif kind == "raise":
            if self.final_ran:
                return
            if self.raised is not None:
                # A callback the loop had already dequeued for the same turn may still run after the first
                # exception (not constrained).  If that one ends the loop "cleanly" with ExitMainLoop, the
                # first, ordinary exception must still come out of run(): check_outcome keeps expecting it.
                if op.get("second") and self.raised[1] != "exit" and self.second_raise is None and inside:
                    from urwid import ExitMainLoop  # noqa: PLC0415

                    exc2 = ExitMainLoop()
                    self.second_raise = exc2
                    self.log.add("raise", ["exit-after-exception", list(inside)])
                    self.res.fault("raise_exit_after_exception_same_turn")
                    raise exc2
                return  # otherwise at most one exception per run (the final ExitMainLoop counts)
            ek = op["exc"]
            if ek == "exit":
                from urwid import ExitMainLoop  # noqa: PLC0415

                exc = ExitMainLoop()
            elif ek == "value":
                exc = ValueError("injected")
            elif self.scen.get("run_seed", 0) % 4 == 1:
                # an exception outside the Exception hierarchy (ctrl-C, sys.exit() in a callback): "any other
                # exception" all the same - it stops the loop and comes out of run()
                exc = KeyboardInterrupt("injected")
                self.res.probe("non_Exception_injected")
            else:
                exc = Boom("injected")
            self.raised = (exc, ek, self.log.seq, inside)
            self.log.add("raise", [ek, list(inside) if inside else "pre"])
            self.res.fault(f"raise_{ek}_in_{inside[0] if inside else 'pre'}")
            raise exc

    # ---- invariants at every block -------------------------------------------------------
    def on_block(self, timeout) -> None:
        if not self.in_run:
            return
        long_wait = timeout is None or timeout > LONG
        w = self.world
        self.res.states.add(
            f"{self.kind}/{min(3, sum(a['state'] == 'pending' for a in self.alarms.values()))}/"
            f"{sum(1 for p, wt in self.watches.items() if wt['registered'] and self.pipes[p].buf)}/"
            f"{bool(self.dirty_seq)}/{'L' if long_wait else 'S'}"
        )
        if not long_wait:
            return
        if self.raised is not None:
            self.violate("C13.5", f"loop-keeps-waiting-after-{self.raised[1]}-in-{self.raised[3][0] if self.raised[3] else 'pre'}", "")
            return
        watched = None
        if w.log.keep or True:
            watched = self._last_watched
        for p, wt in self.watches.items():
            if wt["registered"] and not wt.get("stale") and self.pipes[p].buf:
                name = self.pipes[p].name
                if watched is None or name not in watched:
                    self.violate("C13.3", "loop-waits-while-registered-watch-is-readable", f"watch {p} timeout {timeout}")
        if self.dirty_seq:
            for iid, it in self.idles.items():
                if it["registered"] and not it.get("stale") and it["reg_seq"] < self.dirty_seq and it["last_seq"] < self.dirty_seq:
                    self.violate("C13.4", "idle-not-run-before-waiting", f"idle {iid} timeout {timeout}")
            self.dirty_seq = 0
            self.res.probe("idle_checked_at_long_block")

    def run(self) -> None:  # noqa: C901
        w = self.world
        res = self.res
        # wrap world.block so that on_block can see which names are being watched
        orig_block = w.block
        self._last_watched = None

        def block(timeout, ready_fn, watched=()):
            self._last_watched = set(watched)
            t_in = w.clock.now
            r = orig_block(timeout, ready_fn, watched)
            if self.in_run and w.clock.now > t_in and self.raised is None:
                # data that arrived while the loop slept on a descriptor set that does not
                # contain a registered watch: the loop slept through it
                for p, wt in self.watches.items():
                    if wt["registered"] and not wt.get("stale") and self.pipes[p].buf and self.pipes[p].name not in self._last_watched:
                        self.violate("C13.3", "loop-waits-while-registered-watch-is-readable", f"watch {p} (arrived during wait)")
            return r

        w.block = block
        if self.kind == "trio":
            self._last_watched = None
        for a in self.scen.get("arrivals", []):
            p, n = a["p"], int(a["n"])
            w.schedule(float(a["t"]), f"arrive w{p} {n}", lambda p=p, n=n: self.pipe(p).feed(b"d" * n))
        # final exit
        t_end = float(self.scen["config"]["t_end"])
        from urwid import ExitMainLoop  # noqa: PLC0415

        def make_final(phase):
            def final():
                if phase != self.phase:
                    return  # the final alarm of an earlier run() that ended before it was due
                self.log.add("cb", ["final", 0, 0])
                self.final_ran = True
                raise ExitMainLoop

            return final

        def one_run(pre_key):
            outcome = None
            for op in self.ops_at.get(pre_key, ()):
                self.perform(op)
            self.final_due = self.world.clock.now + t_end
            self.loop.alarm(t_end, make_final(self.phase))
            self.in_run = True
            try:
                if self.kind == "twisted":
                    with contextlib.redirect_stdout(io.StringIO()):
                        self.loop.run()
                elif self.kind == "trio" and self.scen["config"].get("trio_async"):
                    self.res.probe("trio_run_async_entry")
                    self.box.extra["run_async"]()
                else:
                    self.loop.run()
                outcome = ("returned", None)
            except Quiescent:
                outcome = ("quiescent", None)
            except Livelock as e:
                outcome = ("livelock", e)
            except (Exception, KeyboardInterrupt, BaseExceptionGroup) as e:  # noqa: BLE001
                outcome = ("raised", e)
            finally:
                self.in_run = False
            self.log.add("end", [outcome[0], type(outcome[1]).__name__ if outcome[1] is not None else ""])
            self.check_outcome(outcome)
            return outcome

        try:
            outcome = one_run(("pre",))
            # (a Twisted reactor cannot be run twice: ReactorNotRestartable is Twisted's, not urwid's)
            if "restart" in self.scen and self.kind != "twisted" and outcome[0] in {"returned", "raised"} and not res.violations:
                # run() again on the same loop object.  What was left over from the first run stays
                # registered; alarms that had not fired when it ended may fire now (never early,
                # never twice, never after removal) but are not required to.
                self.phase = 2
                res.probe("loop_restarted_after_" + ("exception" if self.raised and self.raised[1] != "exit" else "exit"))
                self.log.add("restart", [])
                for a in self.alarms.values():
                    if a["state"] == "pending":
                        a["late"] = True
                # the loops differ in what survives the end of run() (trio cancels its tasks and forgets the idle
                # callbacks, the others keep everything): nothing is demanded of registrations made before the restart
                for wt in self.watches.values():
                    wt["stale"] = True
                for it in self.idles.values():
                    it["stale"] = True
                self.raised = None
                self.second_raise = None
                self.final_ran = False
                self.dirty_seq = 0
                self.cb_count = 0
                one_run(("pre2",))
        finally:
            w.block = orig_block
        res.sim_time = w.rel()
        res.faults.update({k: res.faults.get(k, 0) + v for k, v in w.faults.items()})
        for k, v in w.probes.items():
            res.probe(k, v)

    def check_outcome(self, outcome) -> None:
        how, exc = outcome
        where = f"{self.raised[3][0] if self.raised and self.raised[3] else 'pre'}"
        if how == "livelock":
            self.violate("C13.5", "loop-livelock", str(exc))
            return
        if how == "quiescent":
            if self.raised is not None:
                self.violate("C13.5", f"{self.raised[1]}-in-{where}-lost:loop-went-quiescent", "")
            else:
                self.violate("C13.1", "loop-went-quiescent-with-final-alarm-pending", "")
            return
        if self.raised is None:
            # only the final ExitMainLoop alarm
            if how == "raised":
                from urwid import ExitMainLoop  # noqa: PLC0415

                if isinstance(exc, ExitMainLoop):
                    self.violate("C13.5", "exit-in-final-alarm-propagated-out-of-run", "")
                    return
                if core.raised_in_harness(exc) and not isinstance(exc, (Boom,)):
                    raise core.HarnessError(f"harness exception inside run(): {core.format_exc(exc)}") from exc
                self.violate("C13.5", f"run-raised-uninjected:{core.exc_signature(exc)}", core.format_exc(exc))
                return
            # all pending alarms must have fired exactly once
            for aid, a in self.alarms.items():
                if a["state"] == "pending" and not a["late"] and a["due"] < self.final_due:
                    self.violate("C13.1", "alarm-never-fired", f"alarm {aid} due {self.world.rel(a['due'])}")
            return
        inj, ek, _seq, _inside = self.raised
        if ek == "exit":
            if how == "raised":
                if exc is inj:
                    self.violate("C13.5", f"exit-in-{where}-propagated-out-of-run", "")
                else:
                    self.violate("C13.5", f"exit-in-{where}:run-raised-other:{core.exc_signature(exc)}", core.format_exc(exc))
            else:
                self.res.probe(f"exit_in_{where}")
        else:
            if how == "returned":
                self.violate("C13.5", f"exception-in-{where}-swallowed", f"{ek}")
            elif self.second_raise is not None and isinstance(exc, BaseExceptionGroup) and _group_contains(exc, inj):
                # two callbacks of one turn failed: a loop built on structured concurrency (trio) reports both
                # as a group; the injected exception did come out of run()
                self.res.probe("two_exceptions_reported_as_group")
            elif exc is not inj:
                self.violate(
                    "C13.5", f"exception-in-{where}:run-raised-other:{core.exc_signature(exc)}", core.format_exc(exc)
                )
            else:
                self.res.probe(f"exception_in_{where}")

    def close(self) -> None:
        try:
            self.box.cleanup()
        finally:
            W.deactivate()
            loops.restore_asyncio_state()


class LoopsEngine(Engine):
    prop = P
    name = "loops"
    level = "exploration"
    tiers = {"quick": 100000, "thorough": 3000000}
    rule = (
        "seeded user programs per loop kind (select, asyncio, tornado, twisted, zmq, trio): 2-8 alarms on a time "
        "grid with equal offsets and 0, 0-3 watched pipes with scheduled arrivals (some exactly at an alarm's due "
        "time, resolved by the tie-break tape), 0-3 idle callbacks, re-entrant API calls attached to callback "
        "invocations, arbitrary return values, one raising callback (optionally a second callback of the same turn that ends the "
        "loop with ExitMainLoop afterwards), final ExitMainLoop; in 30% of the runs run() is "
        "then called a second time on the same loop object (not Twisted: reactors cannot restart) with new alarms, an idle "
        "callback, a write, a removal and possibly another raising callback. Non-trivial: at "
        "least one re-entrant API call or injected exception fired, or an alarm and an arrival coincided; distinct = "
        "distinct event-log digests among those. IN ADDITION a bounded enumeration runs first: two alarms and one arrival on a "
        "watched pipe, each at an instant from {0,1,2}/1024 s (every relative order incl. ties) x the four tie-break answers x "
        "{no exception, ExitMainLoop / ordinary exception in alarm A, alarm B or the watch callback}: 756 scenarios, complete "
        "for the select loop in every tier and for all six loops in the thorough tier."
    )
    assumptions = [
        "virtual clock; all times are multiples of 1/1024 s",
        "watch callbacks drain their descriptor after a bounded number of invocations, so readiness is never permanent",
        "a 'wait'/'quiescent' point is a blocking-seam call with timeout None or > 0.01 s (tolerates Twisted's 1/256 s idle emulation)",
        "equal due times, removal of an already-fired alarm and callbacks already dequeued when an exception is raised are left unconstrained",
        "twisted reactor is told not to install process signal handlers; GLib loop not installed, not covered",
    ]
    components = {
        "real": [
            "SelectEventLoop, AsyncioEventLoop, TornadoEventLoop, TwistedEventLoop, ZMQEventLoop, TrioEventLoop",
            "asyncio BaseEventLoop handle/timer machinery, tornado AsyncIOLoop, twisted AsyncioSelectorReactor, trio scheduler",
        ],
        "stub": [
            "clock (time module attribute / loop.time / reactor.seconds / trio MockClock)",
            "selectors.DefaultSelector, zmq.Poller, asyncio blocking step, trio fd wait",
            "pipes (fake descriptors)",
        ],
    }
    required_probes = (
        "timeout_and_arrival_same_instant",
        "alarm_removed_from_alarm",
        "idle_removed_from_idle",
        "watch_removed_own_watch",
        "idle_checked_at_long_block",
        "loop_restarted_after_exception",
        "loop_restarted_after_exit",
        "non_Exception_injected",
        "bounded_enumeration_scenario",
    )
    reducible = ("ops", "arrivals", "rets")

    def generate(self, rng: random.Random, tier: str) -> dict:
        kind = rng.choice(loops.KINDS)
        n_al = rng.randint(1, 8)
        n_w = rng.randint(0, 3)
        n_id = rng.randint(0, 3)
        ops = []
        for i in range(n_id):
            ops.append({"at": "pre", "op": "enter_idle", "id": i})
        for p in range(n_w):
            ops.append({"at": "pre", "op": "watch", "p": p})
        alarm_times = {}
        for a in range(n_al):
            s = rng.choice(GRID)
            alarm_times[a] = s
            ops.append({"at": "pre", "op": "alarm", "id": a, "secs": s})
        arrivals = []
        for _ in range(rng.randint(0, 6) if n_w else 0):
            t = rng.choice(list(alarm_times.values())) if rng.random() < 0.5 else rng.choice(GRID) + rng.choice([0, 1 / 1024, 0.125])
            arrivals.append({"t": t, "p": rng.randrange(n_w), "n": rng.randint(1, 4)})
        targets = (
            [("alarm", a) for a in range(n_al)] + [("watch", p) for p in range(n_w)] + [("idle", i) for i in range(n_id)]
        )
        next_alarm = n_al
        for _ in range(rng.randint(0, 6)):
            tk, ti = rng.choice(targets)
            at = [tk, ti, rng.randint(0, 1) if tk != "alarm" else 0]
            r = rng.random()
            if r < 0.2:
                op = {"op": "alarm", "id": next_alarm, "secs": rng.choice(GRID)}
                next_alarm += 1
            elif r < 0.4:
                op = {"op": "remove_alarm", "id": rng.randrange(next_alarm)}
            elif r < 0.5:
                op = {"op": "remove_watch", "p": rng.randrange(max(1, n_w))}
            elif r < 0.58:
                op = {"op": "watch", "p": rng.randrange(max(1, n_w + 1))}
            elif r < 0.72:
                op = {"op": "remove_idle", "id": rng.randrange(max(1, n_id))}
            elif r < 0.8:
                op = {"op": "enter_idle", "id": rng.randrange(n_id + 1)}
            else:
                op = {"op": "write", "p": rng.randrange(max(1, n_w)), "n": rng.randint(1, 3)}
            op["at"] = at
            ops.append(op)
            if op["op"] in ("remove_watch", "remove_idle") and rng.random() < 0.4:
                # the same callback registers the descriptor / idle slot again straight away (a new registration
                # with a new callback: the one it replaces must not run any more)
                again = {"op": "watch", "p": op["p"]} if op["op"] == "remove_watch" else {"op": "enter_idle", "id": op["id"]}
                again["at"] = list(at)
                ops.append(again)
        if n_w >= 2 and rng.random() < 0.15:
            # two descriptors become readable at the same instant (one readiness batch) and whichever callback is
            # served first replaces the other's registration
            pa, pb = rng.sample(range(n_w), 2)
            t = rng.choice(GRID)
            arrivals.append({"t": t, "p": pa, "n": 1})
            arrivals.append({"t": t, "p": pb, "n": 1})
            for me, other in ((pa, pb), (pb, pa)) if rng.random() < 0.6 else ((pa, pb),):
                ops.append({"at": ["watch", me, 0], "op": "remove_watch", "p": other})
                ops.append({"at": ["watch", me, 0], "op": "watch", "p": other})
        if rng.random() < 0.2:
            ops.append({"at": "pre", "op": "remove_alarm", "id": rng.randrange(n_al)})
            if rng.random() < 0.5:
                ops.append({"at": "pre", "op": "remove_alarm", "id": ops[-1]["id"]})
        if rng.random() < 0.45:
            tk, ti = rng.choice(targets)
            ops.append({"at": [tk, ti, rng.randint(0, 1) if tk != "alarm" else 0], "op": "raise", "exc": rng.choice(EXC_KINDS)})
            if rng.random() < 0.35:
                # other callbacks that may be served in the same loop turn (alarms due at the same instant, a watch)
                # end the loop with ExitMainLoop if they still run after the first exception
                same = [a for a in range(n_al) if (tk, ti) != ("alarm", a) and (tk != "alarm" or alarm_times[a] == alarm_times[ti])]
                for a in same[:3]:
                    ops.append({"at": ["alarm", a, 0], "op": "raise", "exc": "exit", "second": True})
                for p in range(n_w):
                    if (tk, ti) != ("watch", p):
                        ops.append({"at": ["watch", p, 0], "op": "raise", "exc": "exit", "second": True})
        rets = [[tk, ti, rng.randrange(len(RETVALS))] for tk, ti in targets if rng.random() < 0.4]
        read_plans = {str(p): [rng.choice([0, 1, 1, 2]) for _ in range(rng.randint(0, 3))] for p in range(n_w)}
        t_end = 4.0
        cfg = {"loop": kind, "tiebreak": [rng.randrange(4) for _ in range(8)], "t_end": t_end}
        if kind == "trio" and rng.random() < 0.3:
            cfg["trio_async"] = True
        if kind in ("asyncio", "tornado", "twisted") and rng.random() < 0.2:
            cfg["decoy"] = True
        if n_w and rng.random() < 0.25:
            cfg["fd0"] = True
        scen = {"config": cfg, "ops": ops, "arrivals": arrivals, "rets": rets, "read_plans": read_plans}
        if rng.random() < 0.3:
            # run() a second time on the same loop object: new alarms (ids from 100), possibly a new idle
            # callback, a write to a watched pipe, a removal and one more raising callback
            rops = []
            n2 = rng.randint(1, 4)
            for a in range(n2):
                rops.append({"at": "pre", "op": "alarm", "id": 100 + a, "secs": rng.choice(GRID)})
            if rng.random() < 0.4:
                rops.append({"at": "pre", "op": "enter_idle", "id": n_id})
            if n_w and rng.random() < 0.5:
                rops.append({"at": ["alarm", 100, 0], "op": "write", "p": rng.randrange(n_w), "n": rng.randint(1, 3)})
            if rng.random() < 0.3:
                rops.append({"at": ["alarm", 100 + rng.randrange(n2), 0], "op": "remove_alarm", "id": 100 + rng.randrange(n2)})
            if rng.random() < 0.3:
                rops.append({"at": ["alarm", 100 + rng.randrange(n2), 0], "op": "raise", "exc": rng.choice(EXC_KINDS)})
            scen["restart"] = {"ops": rops}
        return scen

    def extra_scenarios(self, tier: str) -> list[dict]:
        """Bounded enumeration (in addition to the seeded histories): one idle callback, one watched pipe, two
        alarms A and B and one byte arrival, each at an instant from {0, 1, 2}/1024 s - i.e. EVERY relative order
        of the two timer expiries and the descriptor becoming readable, ties included - x both answers of the
        tie-break tape to "timer or arrival first" and "which ready descriptor first" x no exception / an
        ExitMainLoop or an ordinary exception in A, in B or in the watch callback.  Complete for the select
        loop (the loop the property's quantifier names) in every tier; for the other five loops in the
        thorough tier."""
        kinds = list(loops.KINDS) if tier == "thorough" else ["select"]
        grid = [0.0, 1 / 1024, 2 / 1024]
        out = []
        for kind in kinds:
            for ta in grid:
                for tb in grid:
                    for tw in grid:
                        for tape in ([0, 0], [1, 0], [0, 1], [1, 1]):
                            for target in (None, ("alarm", 0), ("alarm", 1), ("watch", 0)):
                                for ek in ((None,) if target is None else ("exit", "boom")):
                                    ops = [
                                        {"at": "pre", "op": "enter_idle", "id": 0},
                                        {"at": "pre", "op": "watch", "p": 0},
                                        {"at": "pre", "op": "alarm", "id": 0, "secs": ta},
                                        {"at": "pre", "op": "alarm", "id": 1, "secs": tb},
                                    ]
                                    if target is not None:
                                        ops.append({"at": [target[0], target[1], 0], "op": "raise", "exc": ek})
                                    out.append(
                                        {
                                            "config": {"loop": kind, "tiebreak": tape * 4, "t_end": 1.0},
                                            "ops": ops,
                                            "arrivals": [{"t": tw, "p": 0, "n": 1}],
                                            "rets": [],
                                            "read_plans": {"0": []},
                                            "index": f"enum/{kind}/{int(ta * 1024)}{int(tb * 1024)}{int(tw * 1024)}/{tape[0]}{tape[1]}/{target[0] + str(target[1]) if target else 'none'}/{ek}",
                                        }
                                    )
        return out

    def execute(self, scen: dict) -> Result:
        res = Result()
        if str(scen.get("index", "")).startswith("enum/"):
            res.probe("bounded_enumeration_scenario")
        run = _Run(scen, res)
        try:
            run.log.add("seed", scen.get("run_seed", 0))
            run.log.add("cfg", scen["config"]["loop"])
            run.run()
        finally:
            run.close()
        res.digest = run.log.digest()
        if any(k.startswith(("reentrant_", "raise_")) for k in res.faults) or res.probes.get("timeout_and_arrival_same_instant"):
            res.nontrivial = True
        if run.log.keep:
            res.info["log"] = run.log.lines
        return res

    def simplify(self, scen: dict):
        cfg = scen["config"]
        if "restart" in scen:
            c = dict(scen)
            del c["restart"]
            yield c
            rops = scen["restart"]["ops"]
            for i in range(len(rops)):
                c = dict(scen)
                c["restart"] = {"ops": rops[:i] + rops[i + 1 :]}
                yield c
        if any(cfg.get("tiebreak", [])):
            c = dict(scen)
            c["config"] = dict(cfg, tiebreak=[0] * len(cfg["tiebreak"]))
            yield c
        if scen.get("read_plans") and any(scen["read_plans"].values()):
            c = dict(scen)
            c["read_plans"] = {k: [] for k in scen["read_plans"]}
            yield c
        for i, op in enumerate(scen["ops"]):
            if op.get("secs"):
                c = dict(scen)
                ops = [dict(x) for x in scen["ops"]]
                ops[i]["secs"] = 0.0
                c["ops"] = ops
                yield c


ENGINE = LoopsEngine()
