"""C20 - Scrollable views show the right slice and scrollbars reflect the position (engine `widgets`)

Environment-decided dimension: Scrollable stores the scroll action / requested position when a key,
wheel event or set_scrollpos arrives and RESOLVES it only in render(); how many of those are
batched before one render, and what size that render has (resize timing), is decided by the loop.
Renders and resizes are therefore scheduled operations of the history, not side effects of checks.
"""

from __future__ import annotations

import os
import random

from simkit import core
from simkit.core import EventLog
from simkit.runner import Engine, Result

P = "C20"
KEYS = ["up", "down", "page up", "page down", "home", "end", "a", "left", "right", "enter", "tab", "Q", "j", "k"]
# scroll action a key is bound to: in urwid's default command map, and in the widget's own map of the sessions with
# config "cmap" (vi-style j / k added, home unbound: Widget._command_map is the documented per-widget binding table)
DEFAULT_BINDINGS = {"up": "line-up", "down": "line-down", "page up": "page-up", "page down": "page-down", "home": "top", "end": "end"}
OWN_BINDINGS = {"up": "line-up", "down": "line-down", "page up": "page-up", "page down": "page-down", "end": "end", "j": "line-down", "k": "line-up"}
THUMB = "█"


_FIXED = None


def _fixed_class():
    """Made once per process: urwid's metaclasses keep every widget class for ever."""
    global _FIXED  # noqa: PLW0603
    if _FIXED is None:
        import urwid  # noqa: PLC0415

        class Fixed(urwid.Widget):
            _sizing = frozenset(["fixed"])
            _selectable = False

            def __init__(self, rows_n, cols_n):
                super().__init__()
                self.rows_n, self.cols_n = rows_n, cols_n

            def pack(self, size=(), focus=False):
                return (self.cols_n, self.rows_n)

            def render(self, size, focus=False):
                return urwid.TextCanvas([(f"{i:02d}" + "f" * self.cols_n)[: self.cols_n].encode() for i in range(self.rows_n)], maxcol=self.cols_n)

        _FIXED = Fixed
    return _FIXED


def build_inner(spec: dict):
    import urwid  # noqa: PLC0415

    k = spec["k"]
    if k == "text":
        return urwid.Text(spec["text"], wrap=spec.get("wrap", "space"))
    if k == "pile":
        items = []
        for it in spec["items"]:
            if it["k"] == "text":
                items.append(urwid.Text(it["text"]))
            elif it["k"] == "edit":
                items.append(urwid.Edit(it.get("caption", ""), it.get("text", ""), multiline=True))
            elif it["k"] == "button":
                items.append(urwid.Button(it.get("label", "b")))
            else:
                items.append(urwid.Divider("-"))
        return urwid.Pile(items)
    if k == "fixed":
        return _fixed_class()(spec["rows"], spec["cols"])
    raise core.HarnessError(f"unknown inner {k}")


SWAPS = [
    {"k": "text", "text": "alpha beta gamma delta epsilon zeta eta theta iota kappa lambda mu nu xi omicron pi rho sigma tau"},
    {"k": "fixed", "rows": 9, "cols": 7},
    {"k": "pile", "items": [{"k": "text", "text": "one two three four five six seven"}, {"k": "div"}, {"k": "edit", "caption": "e:", "text": "x\ny\nz"}, {"k": "text", "text": "tail\nend"}]},
    {"k": "text", "text": "short"},
    {"k": "fixed", "rows": 2, "cols": 30},
]


def content_rows(canv) -> list:
    out = []
    for row in canv.content():
        r = []
        for a, cs, t in row:
            if r and r[-1][0] == a and r[-1][1] == cs:
                r[-1] = (a, cs, r[-1][2] + t)
            else:
                r.append((a, cs, bytes(t)))
        out.append(r)
    return out


def row_text(row) -> str:
    return b"".join(t for _a, _cs, t in row).decode("utf-8", "replace")


class _Run:
    def __init__(self, scen: dict, res: Result) -> None:
        self.scen = scen
        self.res = res
        self.log = EventLog(keep=bool(os.environ.get("VERIF_KEEP_LOG")))

    def violate(self, clause, sig, msg=""):
        self.res.violate(P, clause, sig, msg)
        self.log.add("violation", f"{clause} {sig}")

    def build_widgets(self):
        import urwid  # noqa: PLC0415

        cfg = self.scen["config"]
        inner = build_inner(cfg["inner"])
        sc = urwid.Scrollable(inner, force_forward_keypress=bool(cfg.get("ffk", False)))
        self.bindings = DEFAULT_BINDINGS
        if cfg.get("cmap"):
            from urwid.command_map import Command  # noqa: PLC0415

            cm = urwid.command_map.copy()
            cm["j"] = Command.DOWN
            cm["k"] = Command.UP
            del cm["home"]
            sc._command_map = cm
            self.bindings = OWN_BINDINGS
            self.res.probe("widget_with_its_own_command_map")
        bar = None
        top = sc
        bw = 0
        self.thumb, self.trough = THUMB, " "
        if cfg.get("bar"):
            bw = cfg["bar"].get("width", 1)
            self.thumb = cfg["bar"].get("thumb", THUMB)
            self.trough = cfg["bar"].get("trough", " ")
            bar = urwid.ScrollBar(sc, thumb_char=self.thumb, trough_char=self.trough, side=cfg["bar"].get("side", "right"), width=bw)
            top = bar
        self.sc, self.inner, self.bar, self.top, self.bw = sc, inner, bar, top, bw
        return top

    # ---- full-stack run: bytes -> Screen -> MainLoop -> ScrollBar/Scrollable -> draw_screen -> RefTerm ----
    def run_stack(self) -> str:  # noqa: C901
        from simkit import appstack  # noqa: PLC0415

        scen, res = self.scen, self.res
        cfg = scen["config"]
        st = cfg["stack"]
        # a view that leaves no column for the wrapped widget is outside the checked sizes (see assumptions):
        # a live program cannot skip a frame, so full-stack runs keep the terminal wider than the bar
        min_cols = (max([cfg["bar"].get("width", 1)] + [max(1, int(o.get("width") or 0)) for o in scen["ops"] if o["op"] == "bar"]) + 1) if cfg.get("bar") else 1
        size = [max(min_cols, cfg["size"][0]), cfg["size"][1]]
        first_size = list(size)
        events = []
        t = 0.125
        for op in scen["ops"]:
            k = op["op"]
            t += float(op.get("dt", 0.25 if k == "render" else 0))
            if k == "resize":
                op = dict(op, size=[max(min_cols, op["size"][0]), op["size"][1]])
            if k == "key":
                hx = appstack.key_hex(KEYS[op["k"] % len(KEYS)])
                if hx:
                    events.append({"ev": "bytes", "t": t, "hex": hx})
            elif k in ("wheel", "click"):
                b = 1 if k == "click" else (4 if op.get("up") else 5)
                x, y = op.get("x", 0) % size[0], op.get("y", 0) % size[1]
                events.append({"ev": "bytes", "t": t, "hex": appstack.mouse_hex(b, x, y) + ("" if b in (4, 5) else appstack.mouse_hex(b, x, y, True))})
            elif k == "resize":
                size = list(op["size"])
                events.append({"ev": "resize", "t": t, "cols": size[0], "rows": size[1]})
            elif k in ("setpos", "content", "bar"):
                events.append({"ev": "app", "t": t, "op": op})
        self.stack_last = None

        def apply_app(op):
            if op["op"] == "setpos":
                self.sc.set_scrollpos(op["p"])
                self.log.add("setpos", op["p"])
                if op["p"] < 0:
                    res.probe("negative_position")
            elif op["op"] == "bar":
                self.change_bar(op)
            else:
                self.change_content(op)
            self.stack_last = None

        def on_stable(stack):
            if res.violations:
                return
            sz = tuple(stack.size())
            n = stack.stable_points
            last = self.stack_last if self.stack_last is not None and self.stack_last[0] == sz else None
            self.stack_last = self.check_render(f"stable-point {n}", sz, True, last, None)
            if self.stack_last is None or res.violations:
                return
            shown = stack.screen_text()
            if shown != self.last_got_text:
                bad = next((y for y, (a, b) in enumerate(zip(shown, self.last_got_text)) if a != b), 0)
                self.violate("C20.1", "terminal-differs-from-canvas-when-loop-waits", f"stable point {n} size {sz}: row {bad}: terminal {shown[bad]!r} canvas {self.last_got_text[bad]!r}")
                return
            res.probe("stack_frame_checked_on_terminal")

        stack = appstack.AppStack({"size": first_size, "loop": st.get("loop", "select"), "tiebreak": st.get("tiebreak", ())}, res, self.build_widgets, apply_app, on_stable)
        self.log.add("cfg", ["stack", st.get("loop", "select"), repr(cfg["inner"])[:200], list(cfg["size"]), repr(cfg.get("bar"))])
        digest = stack.run(events)
        how, exc = stack.outcome
        if how == "raised":
            if isinstance(exc, core.HarnessError):
                raise exc
            if core.raised_in_harness(exc):
                raise core.HarnessError(f"harness exception in full-stack run: {core.format_exc(exc)}") from exc
            if not res.violations:
                self.violate("C20.1", f"full-stack-run-raised:{core.exc_signature(exc)}", f"size {tuple(stack.size())}: {core.format_exc(exc)}")
        elif how in ("livelock", "quiescent") and not res.violations:
            self.violate("C20.1", f"full-stack-run-{how}", str(exc))
        else:
            res.probe("stack_run_completed")
        self.log.add("stack-digest", digest)
        if self.log.keep:
            self.log.lines.extend(stack.log_lines)
        return self.log.digest()

    def run(self) -> str:  # noqa: C901, PLR0912, PLR0915
        import urwid  # noqa: PLC0415

        scen, res = self.scen, self.res
        cfg = scen["config"]
        urwid.util.set_encoding("utf-8")
        urwid.CanvasCache.clear()
        self.build_widgets()
        inner, top = self.inner, self.top
        size = tuple(cfg["size"])
        focus = True
        self.direct = True
        self.hook_inner(inner)
        last = None  # (size, p, top_height) of the previous render at constant size
        prev_frame = None  # the previous checked frame, kept across position changes (clause 1b)
        since_render: list = []  # operations since that frame
        pending_actions = 0
        handled_key_since_render = None
        self.log.add("cfg", [repr(cfg["inner"])[:200], list(size), repr(cfg.get("bar"))])
        for i, op in enumerate(scen["ops"]):
            k = op["op"]
            if k != "render":
                since_render.append(op)
            try:
                if k == "key":
                    key = KEYS[op["k"] % len(KEYS)]
                    self.inner_handled = None
                    p_before = self.sc.get_scrollpos()
                    rv = top.keypress(size, key)
                    self.log.add("key", [key, repr(rv), self.inner_handled])
                    if rv is not None and rv != key:
                        self.violate("C20.3", "keypress-returned-a-different-key", f"{key!r} -> {rv!r}")
                    elif not self.inner_handled and (rv is None) != (key in self.bindings):
                        # a key the wrapped widget did not take is used exactly when the Scrollable's command map binds it
                        # to a scroll command
                        self.violate("C20.3", "scroll-key-not-used" if rv is not None else "unbound-key-swallowed", f"step {i}: {key!r} -> {rv!r} (bound to {self.bindings.get(key)!r}, wrapped widget handled it: {self.inner_handled!r})")
                    op = dict(op, _inner_handled=self.inner_handled, _used=rv is None, _cursor_may_pull=getattr(self.sc, "_old_cursor_coords", None) is not None)
                    since_render[-1] = op
                    if self.inner_handled and pending_actions == 0:
                        handled_key_since_render = (key, p_before)
                        res.probe("key_handled_by_wrapped_widget")
                    elif rv is None:
                        pending_actions += 1
                        handled_key_since_render = None  # a scroll action is now pending as well
                elif k == "wheel":
                    btn = 4 if op.get("up") else 5
                    self.inner_mouse_handled = None
                    rv = top.mouse_event(size, "mouse press", btn, op.get("x", 0) % size[0], op.get("y", 0) % size[1], focus)
                    op = dict(op, _inner_handled=self.inner_mouse_handled)
                    since_render[-1] = op
                    self.log.add("wheel", [btn, repr(rv)])
                    pending_actions += 1
                    handled_key_since_render = None
                elif k == "click":
                    rv = top.mouse_event(size, "mouse press", 1, op.get("x", 0) % size[0], op.get("y", 0) % size[1], focus)
                    self.log.add("click", [op.get("x", 0) % size[0], op.get("y", 0) % size[1], repr(rv)])
                elif k == "setpos":
                    self.sc.set_scrollpos(op["p"])
                    self.log.add("setpos", op["p"])
                    pending_actions += 1
                    handled_key_since_render = None
                    if op["p"] < 0:
                        res.probe("negative_position")
                    last = None
                elif k == "resize":
                    size = tuple(op["size"])
                    self.log.add("resize", list(size))
                    res.fault("resize_between_action_and_render" if pending_actions else "resize")
                    last = None
                elif k == "content":
                    self.change_content(op)
                    last = None
                    if op.get("swap") is not None:
                        prev_frame = None
                        handled_key_since_render = None
                elif k == "bar":
                    self.change_bar(op)
                    last = None
                    prev_frame = None
                elif k == "focus":
                    focus = bool(op.get("on", True))
                elif k == "render":
                    if pending_actions >= 2:
                        res.probe("two_actions_before_one_render")
                    pending_actions = 0
                    last = self.check_render(i, size, focus, last, handled_key_since_render)
                    handled_key_since_render = None
                    if res.violations:
                        break
                    if last is not None:
                        self.check_position_change(i, prev_frame, since_render, last, focus)
                        if res.violations:
                            break
                    prev_frame = (*last, focus) if last is not None else None
                    since_render = []
            except Exception as e:  # noqa: BLE001
                if core.raised_in_harness(e):
                    raise core.HarnessError(f"harness exception in op {op}: {core.format_exc(e)}") from e
                self.violate("C20.1", f"{k}-raised:{core.exc_signature(e)}", f"step {i} {op} size {size}: {core.format_exc(e)}")
                break
        urwid.CanvasCache.clear()
        return self.log.digest()

    def check_position_change(self, i, prev, since, now, focus) -> None:
        """Clause 1b - explicit position changes are honoured.  Between two checked frames of the same size, focus
        flag and content height, exactly one operation happened:
        set_scrollpos(k): the new position is k clamped to 0..max (k < 0 counts from the bottom, as documented);
        a wheel event under a ScrollBar that the wrapped widget did not handle: one row up / down, clamped."""
        if prev is None or len(since) != 1:
            return
        size, p, _top_h, total = now
        if prev[0] != size or prev[3] != total or prev[4] != focus:
            return
        op = since[0]
        rows = size[1]
        pmax = max(0, total - rows)
        if op["op"] == "setpos":
            k = int(op["p"])
            want = max(0, min(pmax, k if k >= 0 else total - rows + k + 1))
            what = f"set_scrollpos({k})"
        elif op["op"] == "wheel" and self.bar is not None and not op.get("_inner_handled"):
            if total <= rows:
                return
            want = max(0, min(pmax, prev[1] + (-1 if op.get("up") else 1)))
            what = f"wheel {'up' if op.get('up') else 'down'}"
        elif op["op"] == "key" and op.get("_used") and not op.get("_inner_handled") and not op.get("_cursor_may_pull"):
            # a scrolling key the wrapped widget did not take: one row for the line keys, towards the named end and at
            # most one view height for the page keys, the first / last window for home / end
            act = self.bindings.get(KEYS[op["k"] % len(KEYS)])
            what = f"key {KEYS[op['k'] % len(KEYS)]!r} ({act})"
            if act in ("page-up", "page-down"):
                least = 1 if rows >= 2 else 0  # (a page is the view height less one row of context: nothing in a one-row view)
                lo, hi = (max(0, prev[1] - rows), max(0, prev[1] - least)) if act == "page-up" else (min(pmax, prev[1] + least), min(pmax, prev[1] + rows))
                if not lo <= p <= hi:
                    self.violate("C20.1", "position-change-not-honoured:key", f"step {i} size {size} content rows {total}: {what} from position {prev[1]}: expected {lo}..{hi}, Scrollable reports {p}")
                    return
                self.res.probe("position_change_by_key_checked")
                return
            want = {"line-up": max(0, prev[1] - 1), "line-down": min(pmax, prev[1] + 1), "top": 0, "end": pmax}.get(act)
            if want is None:
                return
            self.res.probe("position_change_by_key_checked")
        else:
            return
        if p != want:
            self.violate("C20.1", f"position-change-not-honoured:{op['op']}", f"step {i} size {size} content rows {total}: {what} from position {prev[1]}: expected {want}, Scrollable reports {p}")
            return
        self.res.probe("position_change_checked")

    direct = False
    cur_side = None  # the bar's side after the application's last change (None: the configured one)

    def change_bar(self, op: dict) -> None:
        """The application moves the bar to the other side and / or changes its width (ScrollBar.scrollbar_side,
        scrollbar_width are settable properties)."""
        if self.bar is None:
            return
        if op.get("side"):
            self.bar.scrollbar_side = op["side"]
            self.cur_side = op["side"]
        if op.get("width") is not None:
            # (the bar is at least one column wide: smaller values are clamped, as the constructor does)
            self.bar.scrollbar_width = int(op["width"])
            self.bw = max(1, int(op["width"]))
        self.log.add("bar", [op.get("side"), op.get("width")])
        self.res.probe("bar_side_or_width_changed")

    def hook_inner(self, inner) -> None:
        """Record (on the instance) whether the wrapped widget handled the last key / mouse event."""
        self.inner_handled = None
        self.inner_mouse_handled = None
        orig_kp = getattr(inner, "keypress", None)
        if orig_kp is not None:

            def rec_keypress(sz, key):
                rv = orig_kp(sz, key)
                self.inner_handled = rv is None
                return rv

            inner.keypress = rec_keypress
        orig_me = getattr(inner, "mouse_event", None)
        if orig_me is not None:

            def rec_mouse(sz, event, button, col, row, focus_):
                rv = orig_me(sz, event, button, col, row, focus_)
                self.inner_mouse_handled = bool(rv)
                return rv

            inner.mouse_event = rec_mouse

    def change_content(self, op: dict) -> None:
        import urwid  # noqa: PLC0415

        inner = self.inner
        n = op.get("n", 1)
        if op.get("swap") is not None:
            # the application replaces the scrolled widget (WidgetDecoration.original_widget): the new content may be
            # of another sizing kind (flow <-> fixed-only) than the one the Scrollable was built around
            spec = SWAPS[op["swap"] % len(SWAPS)]
            self.inner = build_inner(spec)
            if self.direct:
                self.hook_inner(self.inner)
            if op.get("swap_sc") and self.bar is not None:
                # ... by putting a new Scrollable under the ScrollBar (bar.original_widget): the bar must describe
                # the Scrollable it wraps now
                import urwid as _u  # noqa: PLC0415

                self.sc = _u.Scrollable(self.inner, force_forward_keypress=bool(self.scen["config"].get("ffk", False)))
                self.bar.original_widget = self.sc
                self.bindings = DEFAULT_BINDINGS  # (the new Scrollable has the shared command map)
                self.res.probe("scrollable_under_the_bar_replaced")
            else:
                self.sc.original_widget = self.inner
            self.log.add("content", ["swap", spec["k"]])
            self.res.probe("content_widget_replaced")
            if ("flow" in inner.sizing()) != ("flow" in self.inner.sizing()):
                self.res.probe("content_widget_replaced_by_other_sizing_kind")
            return
        if isinstance(inner, urwid.Text):
            inner.set_text("\n".join(f"line {j}" for j in range(n)))
            self.log.add("content", ["text", n])
        elif isinstance(inner, urwid.Pile):
            if op.get("grow", True):
                inner.contents.append((urwid.Text(f"added {n}\nsecond"), inner.options()))
            elif len(inner.contents) > 1:
                del inner.contents[op.get("i", 0) % len(inner.contents)]
            self.log.add("content", ["pile", len(inner.contents)])
        if n <= 2:
            self.res.probe("content_shrinks_below_view")

    def check_render(self, i, size, focus, last, handled_key):  # noqa: C901, PLR0912, PLR0915
        res = self.res
        cols, rows = size
        sc, inner, bar, top, bw = self.sc, self.inner, self.bar, self.top, self.bw
        if bar is not None and cols <= bw:
            res.probe("no_room_for_wrapped_widget")
            return None
        canv = top.render(size, focus)
        got = content_rows(canv)
        self.last_got_text = [row_text(r) for r in got]
        fixed = "flow" not in inner.sizing()
        # does the bar have to be drawn?  (content rows at the full width vs view height)
        full_rows_wide = inner.pack((), focus)[1] if fixed else inner.rows((cols,), focus)
        has_bar = bar is not None and full_rows_wide > rows
        child_cols = cols - bw if has_bar else cols
        if child_cols <= 0:
            res.probe("no_room_for_wrapped_widget")
            return None
        full = inner.render((), focus) if fixed else inner.render((child_cols,), focus)
        F = content_rows(full)
        fw = full.cols()
        total = len(F)
        p = sc.get_scrollpos()
        self.log.add("render", [list(size), focus, total, p, has_bar])
        res.states.add(f"{type(inner).__name__}/{bar is not None}/{min(total, rows + 1) > rows}/{p == 0}/{p >= max(0, total - rows)}/{focus}")
        if rows == 1:
            res.probe("one_row_view")
        # split the scroll bar column off
        view_rows = got
        bar_col = None
        if bar is not None:
            texts = [row_text(r) for r in got]
            if has_bar:
                if (self.cur_side or self.scen["config"]["bar"].get("side", "right")) == "right":
                    bar_col = [t[child_cols:] for t in texts]
                    texts = [t[:child_cols] for t in texts]
                else:
                    bar_col = [t[:bw] for t in texts]
                    texts = [t[bw:] for t in texts]
            elif any(self.thumb in t for t in texts) and self.thumb not in "".join(row_text(r) for r in F):
                self.violate("C20.2", "scrollbar-drawn-although-content-fits", f"step {i} size {size} total {total}")
                return None
            view_texts = texts
        else:
            view_texts = [row_text(r) for r in view_rows]
        # clause 1: position bounds and slice
        pmax = max(0, total - rows)
        if not 0 <= p <= pmax:
            self.violate("C20.1", "reported-position-out-of-bounds", f"step {i} size {size}: get_scrollpos()={p}, content rows {total}, view rows {rows}, allowed 0..{pmax}")
            return None
        want = []
        for y in range(rows):
            if p + y < total:
                t = row_text(F[p + y])
                t = t[:child_cols] if fw > child_cols else t + " " * (child_cols - fw)
            else:
                t = " " * child_cols
            want.append(t)
        if view_texts != want:
            for y, (a, b) in enumerate(zip(view_texts, want)):
                if a != b:
                    self.violate("C20.1", "view-is-not-the-slice-at-reported-position", f"step {i} size {size} p={p} total={total}: row {y} shows {a!r}, slice has {b!r}")
                    return None
            self.violate("C20.1", "view-has-wrong-number-of-rows", f"step {i}: {len(view_texts)} vs {rows}")
            return None
        if bar is None and got[: min(rows, total - p)] != F[p : p + rows][: len(got)] and fw == cols:
            self.violate("C20.1", "view-attributes-differ-from-slice", f"step {i} size {size} p={p}")
            return None
        res.probe("slice_checked")
        if full.cursor is not None and not (p <= full.cursor[1] < p + rows):
            res.probe("cursor_scrolled_out_of_view")
        # clause 3: a key the wrapped widget handled does not scroll (beyond keeping the cursor in view)
        if handled_key is not None and last is not None and last[0] == size:
            key, p_before = handled_key
            cur = full.cursor
            if p != p_before and (cur is None or p_before <= cur[1] < p_before + rows) and p_before <= pmax:
                self.violate("C20.3", "handled-key-also-scrolled", f"step {i}: key {key!r} handled by wrapped widget, position {p_before} -> {p}, cursor {cur}")
                return None
        # clause 2: scroll bar geometry
        top_h = None
        if bar is not None:
            if has_bar:
                res.probe("scrollbar_drawn")
                col = "".join(c[0] if c else " " for c in bar_col)
                if any(len(c) != bw for c in bar_col):
                    self.violate("C20.2", "scrollbar-width-wrong", f"step {i}: {bar_col!r}")
                    return None
                first = col.find(self.thumb)
                lastt = col.rfind(self.thumb)
                if first < 0:
                    self.violate("C20.2", "scrollbar-has-no-thumb", f"step {i} size {size}: {col!r}")
                    return None
                if set(col[first : lastt + 1]) != {self.thumb} or set(col[:first] + col[lastt + 1 :]) - {self.trough}:
                    self.violate("C20.2", "scrollbar-thumb-not-contiguous", f"step {i}: {col!r}")
                    return None
                top_h, thumb_h, bot_h = first, lastt - first + 1, len(col) - lastt - 1
                if top_h + thumb_h + bot_h != rows:
                    self.violate("C20.2", "scrollbar-parts-do-not-sum-to-height", f"step {i}: {top_h}+{thumb_h}+{bot_h} != {rows}")
                    return None
                if (top_h == 0) != (p == 0) and thumb_h < rows:  # (a thumb that fills the whole bar cannot leave the top)
                    self.violate("C20.2", "thumb-at-top-iff-first-row-visible-violated", f"step {i} size {size}: p={p} total={total} top part {top_h} ({col!r})")
                    return None
                if last is not None and last[0] == size and last[3] == total and last[2] is not None:
                    if p >= last[1] and top_h < last[2]:
                        self.violate("C20.2", "thumb-moved-up-although-position-did-not-decrease", f"step {i}: p {last[1]} -> {p}, top part {last[2]} -> {top_h}")
                        return None
            else:
                res.probe("scrollbar_not_needed")
        return (size, p, top_h, total)


def item_label(idx: int, n_tokens: int) -> str:
    """Text of list item idx: tokens that all carry the item number, so that every rendered row of the
    list names its item and its place in it whatever the width."""
    return " ".join(f"{idx:02d}{chr(97 + j)}" for j in range(n_tokens))


class _ListRun(_Run):
    """ScrollBar over a ListBox (absolute scrolling for short lists, the relative protocol for long ones).

    The first visible row p is read off the rendered view itself: every row of every item is unique, the
    view must be a contiguous slice of the items rendered at the width the ListBox is supposed to get."""

    def run(self) -> str:  # noqa: C901, PLR0912, PLR0915
        import urwid  # noqa: PLC0415

        scen, res = self.scen, self.res
        cfg = scen["config"]
        urwid.util.set_encoding("utf-8")
        urwid.CanvasCache.clear()
        self.next_idx = 0
        walker = urwid.SimpleFocusListWalker([self.make_item(n, sel) for n, sel in cfg["inner"]["items"]])
        lb = self.lb = urwid.ListBox(walker)
        bw = self.bw = cfg["bar"].get("width", 1)
        bar = self.bar = urwid.ScrollBar(lb, side=cfg["bar"].get("side", "right"), width=bw)
        self.sizes_seen = []
        orig_render = lb.render

        def rec_render(sz, focus=False):
            self.sizes_seen.append(tuple(sz))
            return orig_render(sz, focus)

        lb.render = rec_render
        self.kp_sizes = []
        orig_kp = lb.keypress

        def rec_keypress(sz, key):
            self.kp_sizes.append(tuple(sz))
            return orig_kp(sz, key)

        lb.keypress = rec_keypress
        size = tuple(cfg["size"])
        focus = True
        last = None
        rendered_size = None  # (size, child size) of the last render, None after a resize
        self.log.add("cfg", [repr(cfg["inner"])[:200], list(size), repr(cfg.get("bar"))])
        for i, op in enumerate(scen["ops"]):
            k = op["op"]
            try:
                if k == "key":
                    key = KEYS[op["k"] % len(KEYS)]
                    self.kp_sizes.clear()
                    rv = bar.keypress(size, key)
                    self.log.add("key", [key, repr(rv)])
                    if rv is not None and rv != key:
                        self.violate("C20.3", "keypress-returned-a-different-key", f"{key!r} -> {rv!r}")
                    if rendered_size is not None and rendered_size[0] == size and self.kp_sizes and self.kp_sizes[0] != rendered_size[1]:
                        self.violate("C20.2", "wrapped-widget-got-key-at-a-size-it-was-not-rendered-at", f"step {i}: key {key!r} forwarded with size {self.kp_sizes[0]}, rendered at {rendered_size[1]}")
                        break
                elif k == "wheel":
                    btn = 4 if op.get("up") else 5
                    rv = bar.mouse_event(size, "mouse press", btn, op.get("x", 0) % size[0], op.get("y", 0) % size[1], focus)
                    self.log.add("wheel", [btn, repr(rv)])
                elif k == "click":
                    rv = bar.mouse_event(size, "mouse press", 1, op.get("x", 0) % size[0], op.get("y", 0) % size[1], focus)
                    self.log.add("click", [op.get("x", 0) % size[0], op.get("y", 0) % size[1], repr(rv)])
                elif k == "setpos":
                    if len(walker):
                        walker.set_focus(op["p"] % len(walker))
                        self.log.add("set_focus", op["p"] % len(walker))
                    last = None
                elif k == "resize":
                    size = tuple(op["size"])
                    self.log.add("resize", list(size))
                    res.fault("resize")
                    last = None
                    rendered_size = None
                elif k == "content":
                    if op.get("grow", True):
                        walker.append(self.make_item(1 + op.get("n", 1) % 5, op.get("i", 0) % 2 == 0))
                    elif len(walker) > 1:
                        del walker[op.get("i", 0) % len(walker)]
                    self.log.add("content", ["list", len(walker)])
                    last = None
                elif k == "bar":
                    self.change_bar(op)
                    last = None
                    rendered_size = None
                elif k == "focus":
                    focus = bool(op.get("on", True))
                elif k == "render":
                    last, child = self.check_list_render(i, size, focus, last)
                    rendered_size = (size, child) if child is not None else None
                    if res.violations:
                        break
            except Exception as e:  # noqa: BLE001
                if core.raised_in_harness(e):
                    raise core.HarnessError(f"harness exception in op {op}: {core.format_exc(e)}") from e
                self.violate("C20.1", f"{k}-raised:{core.exc_signature(e)}", f"step {i} {op} size {size}: {core.format_exc(e)}")
                break
        urwid.CanvasCache.clear()
        return self.log.digest()

    def make_item(self, n_tokens: int, selectable: bool):
        import urwid  # noqa: PLC0415

        idx = self.next_idx
        self.next_idx += 1
        label = item_label(idx, n_tokens)
        return urwid.SelectableIcon(label, 0) if selectable else urwid.Text(label)

    def check_list_render(self, i, size, focus, last):  # noqa: C901, PLR0912
        res = self.res
        cols, rows = size
        lb, bar, bw = self.lb, self.bar, self.bw
        if cols - bw < 3:  # a token of an item label no longer fits on a row: rows stop being unique
            res.probe("no_room_for_wrapped_widget")
            return None, None
        items = list(lb.body)
        self.sizes_seen.clear()
        canv = bar.render(size, focus)
        if (canv.cols(), canv.rows()) != (cols, rows):
            self.violate("C20.2", "scrollbar-canvas-has-wrong-size", f"step {i}: size {size}, canvas {canv.cols()}x{canv.rows()}")
            return None, None
        got = [row_text(r) for r in content_rows(canv)]
        total_wide = sum(w.rows((cols,), False) for w in items)
        has_bar = total_wide > rows
        relative = len(items) > 3 * rows
        child_cols = cols - bw if has_bar else cols
        child = (child_cols, rows)
        self.log.add("render", [list(size), focus, len(items), total_wide, has_bar, relative])
        if relative:
            res.probe("listbox_relative_scrolling")
        # the wrapped widget receives the view width minus the bar width (its last render is the one shown)
        if not self.sizes_seen or self.sizes_seen[-1] != child:
            self.violate("C20.2", "wrapped-widget-rendered-at-wrong-size", f"step {i} size {size}: content rows at full width {total_wide}, bar {'needed' if has_bar else 'not needed'}, ListBox rendered at {self.sizes_seen[-1:]}")
            return None, None
        if has_bar:
            res.probe("scrollbar_drawn_over_listbox")
            if (self.cur_side or self.scen["config"]["bar"].get("side", "right")) == "right":
                bar_col = [t[child_cols:] for t in got]
                view = [t[:child_cols] for t in got]
            else:
                bar_col = [t[:bw] for t in got]
                view = [t[bw:] for t in got]
        else:
            res.probe("scrollbar_not_needed")
            bar_col = None
            view = got
            if any(THUMB in t for t in got):
                self.violate("C20.2", "scrollbar-drawn-although-content-fits", f"step {i} size {size} total {total_wide}")
                return None, None
        # read the first visible row off the view
        F = []
        for w in items:
            F.extend(t.rstrip() for t in (row_text(r) for r in content_rows(w.render((child_cols,), False))))
        total = len(F)
        shown = [t.rstrip() for t in view]
        while shown and not shown[-1]:
            shown.pop()
        p = None
        if shown:
            for q in range(total - len(shown) + 1):
                if F[q : q + len(shown)] == shown:
                    p = q
                    break
            if p is None:
                self.violate("C20.2", "listbox-view-is-not-a-slice-of-the-items-at-the-child-width", f"step {i} size {size} child width {child_cols}: shown {shown[:4]!r}...")
                return None, None
        elif total:
            self.violate("C20.2", "listbox-view-empty-although-list-has-rows", f"step {i} size {size}")
            return None, None
        else:
            p = 0
        res.states.add(f"ListBox/{relative}/{has_bar}/{p == 0}/{p is not None and p + rows >= total}/{focus}")
        top_h = None
        if has_bar:
            col = "".join(c[0] if c else " " for c in bar_col)
            if any(len(c) != bw for c in bar_col):
                self.violate("C20.2", "scrollbar-width-wrong", f"step {i}: {bar_col!r}")
                return None, None
            first, lastt = col.find(THUMB), col.rfind(THUMB)
            if first < 0:
                self.violate("C20.2", "scrollbar-has-no-thumb", f"step {i} size {size}: {col!r}")
                return None, None
            if set(col[first : lastt + 1]) != {THUMB} or set(col[:first] + col[lastt + 1 :]) - {" "}:
                self.violate("C20.2", "scrollbar-thumb-not-contiguous", f"step {i}: {col!r}")
                return None, None
            top_h, thumb_h = first, lastt - first + 1
            mode = "relative" if relative else "absolute"
            if (top_h == 0) != (p == 0) and thumb_h < rows:
                if relative and top_h == 0 and items and p < items[0].rows((child_cols,), False):
                    # the relative protocol counts items, not rows (known finding)
                    mode += " [first-item-partly-scrolled-out]"
                self.violate("C20.2", f"thumb-at-top-iff-first-row-visible-violated listbox-{mode}", f"step {i} size {size}: first visible row {p} of {total}, top part {top_h} ({col!r})")
                return None, None
            if last is not None and last[0] == size and last[3] == total and last[2] is not None and p >= last[1] and top_h < last[2]:
                self.violate("C20.2", f"thumb-moved-up-although-position-did-not-decrease listbox-{mode}", f"step {i}: first visible row {last[1]} -> {p}, top part {last[2]} -> {top_h}")
                return None, None
            res.probe("listbox_bar_geometry_checked")
        return (size, p, top_h, total), child


class ScrollEngine(Engine):
    prop = P
    name = "widgets-scroll"
    level = "exploration"
    tiers = {"quick": 30000, "thorough": 1200000}
    rule = (
        "seeded histories (1-30 steps) over Scrollable(Text | Pile of Text/Edit/Button/Divider | fixed widget), optionally under a "
        "ScrollBar (side, width): scrolling keys, keys the wrapped widget consumes, wheel events, clicks, set_scrollpos(any int, "
        "negative included), content growth/shrinkage, resizes 1x1..20x10, focus changes; render is an explicit step, so several "
        "actions may be batched before one render and a resize may land between an action and its render. Non-trivial: >= 2 "
        "renders with at least one scroll action or resize between them; distinct = distinct event-log digests among those."
    )
    assumptions = [
        "the full rendering used as the model is the wrapped widget's own render at the child width (text layout is C03's business)",
        "after a key the wrapped widget handled, the position may still change to bring the moved cursor into view",
        "views narrower than the scrollbar are skipped (no room for the wrapped widget)",
        "ListBox under ScrollBar: the first visible row is read off the rendered view (every row of every item is unique); items have at least one row",
    ]
    components = {"real": ["Scrollable, ScrollBar, Pile/Text/Edit/Button/Divider, canvas trimming"], "stub": [], "driven": ["batching of actions before a render", "resize placement"]}
    required_probes = ("two_actions_before_one_render", "negative_position", "content_shrinks_below_view", "one_row_view", "cursor_scrolled_out_of_view", "scrollbar_drawn", "scrollbar_not_needed", "key_handled_by_wrapped_widget", "listbox_relative_scrolling", "listbox_bar_geometry_checked", "widget_with_its_own_command_map", "position_change_by_key_checked")
    reducible = ("ops",)

    def generate(self, rng: random.Random, tier: str) -> dict:
        r = rng.random()
        if r < 0.3:
            return self.generate_list(rng)
        r = rng.random()
        if r < 0.45:
            n = rng.choice([0, 1, 2, 5, 12, 30])
            inner = {"k": "text", "text": "\n".join(f"row {j} " + "w" * rng.randint(0, 12) for j in range(n)), "wrap": rng.choice(["space", "any", "clip"])}
        elif r < 0.9:
            items = []
            for _ in range(rng.randint(1, 7)):
                q = rng.random()
                if q < 0.4:
                    items.append({"k": "text", "text": "\n".join("t" * rng.randint(1, 8) for _ in range(rng.randint(1, 4)))})
                elif q < 0.7:
                    items.append({"k": "edit", "caption": "e:", "text": "\n".join("x" * rng.randint(0, 6) for _ in range(rng.randint(1, 4)))})
                elif q < 0.85:
                    items.append({"k": "button", "label": "btn"})
                else:
                    items.append({"k": "div"})
            inner = {"k": "pile", "items": items}
        else:
            inner = {"k": "fixed", "rows": rng.randint(1, 20), "cols": rng.randint(1, 25)}
        size = [rng.choice([1, 2, 5, 10, 20]), rng.choice([1, 2, 4, 7, 10])]
        cfg = {"inner": inner, "size": size}
        if rng.random() < 0.3:
            cfg["ffk"] = True  # force_forward_keypress: keys go to the wrapped widget before the first render knows it is selectable
        if rng.random() < 0.2:
            cfg["cmap"] = True  # the Scrollable has a command map of its own
        if rng.random() < 0.5:
            cfg["bar"] = {"side": rng.choice(["left", "right"]), "width": rng.choice([1, 1, 2])}
            if rng.random() < 0.3:
                cfg["bar"].update(thumb=rng.choice(["#", "@"]), trough=rng.choice([" ", ".", "|"]))
        ops = [{"op": "render"}] if rng.random() < 0.8 else []
        for _ in range(rng.randint(1, 30)):
            q = rng.random()
            if q < 0.30:
                ops.append({"op": "key", "k": rng.randrange(len(KEYS))})
            elif q < 0.40:
                ops.append({"op": "wheel", "up": rng.random() < 0.5, "x": rng.randrange(20), "y": rng.randrange(10)})
            elif q < 0.45:
                ops.append({"op": "click", "x": rng.randrange(20), "y": rng.randrange(10)})
            elif q < 0.55:
                ops.append({"op": "setpos", "p": rng.choice([0, 1, 3, 5, 29, 100, -1, -2, -5, -100])})
            elif q < 0.62:
                ops.append({"op": "resize", "size": [rng.choice([1, 2, 3, 5, 10, 20]), rng.choice([1, 2, 4, 7, 10])]})
            elif q < 0.70:
                ops.append({"op": "content", "n": rng.choice([0, 1, 2, 8, 25]), "grow": rng.random() < 0.5, "i": rng.randrange(7)})
                if rng.random() < 0.2:
                    ops[-1]["swap"] = rng.randrange(len(SWAPS))
                    ops[-1]["swap_sc"] = rng.random() < 0.4
            elif q < 0.73:
                ops.append({"op": "focus", "on": rng.random() < 0.7})
            elif q < 0.75 and cfg.get("bar"):
                ops.append({"op": "bar", "side": rng.choice([None, "left", "right"]), "width": rng.choice([None, None, 1, 2, 0, -2])})
            else:
                ops.append({"op": "render"})
        ops.append({"op": "render"})
        if rng.random() < 0.15:
            # full stack: the same history as timed external events; dt = 0 batches an event with its predecessor
            cfg["stack"] = {"loop": rng.choice(["select", "select", "select", "asyncio", "zmq", "tornado", "twisted", "trio"]), "tiebreak": [rng.randrange(4) for _ in range(8)]}
            for op in ops:
                op["dt"] = 0.25 if op["op"] == "render" else rng.choice([0, 0, 0, 1 / 1024, 0.0625, 0.25])
        return {"config": cfg, "ops": ops}

    def generate_list(self, rng: random.Random) -> dict:
        """ScrollBar over a ListBox: short lists scroll by rows, lists longer than three screens by item."""
        n = rng.choice([1, 3, 6, 10, 16, 25, 40, 40, 60])
        mx = rng.choice([1, 2, 4, 6])
        items = [[rng.randint(1, mx), rng.random() < 0.6] for _ in range(n)]
        size = [rng.choice([5, 6, 8, 12, 20]), rng.choice([1, 2, 4, 7, 12])]
        cfg = {"inner": {"k": "listbox", "items": items}, "size": size, "bar": {"side": rng.choice(["left", "right"]), "width": rng.choice([1, 1, 2])}}
        ops = [{"op": "render"}]
        for _ in range(rng.randint(1, 30)):
            q = rng.random()
            if q < 0.40:
                ops.append({"op": "key", "k": rng.choice([0, 1, 1, 2, 3, 3, 3, 4, 5, 5, 6, 9])})
            elif q < 0.50:
                ops.append({"op": "wheel", "up": rng.random() < 0.4, "x": rng.randrange(20), "y": rng.randrange(12)})
            elif q < 0.54:
                ops.append({"op": "click", "x": rng.randrange(20), "y": rng.randrange(12)})
            elif q < 0.60:
                ops.append({"op": "setpos", "p": rng.randrange(40)})
            elif q < 0.66:
                ops.append({"op": "resize", "size": [rng.choice([5, 6, 7, 8, 12, 20]), rng.choice([1, 2, 4, 7, 12])]})
            elif q < 0.70:
                ops.append({"op": "content", "n": rng.randrange(6), "grow": rng.random() < 0.5, "i": rng.randrange(40)})
            elif q < 0.72:
                ops.append({"op": "focus", "on": rng.random() < 0.7})
            elif q < 0.74:
                ops.append({"op": "bar", "side": rng.choice([None, "left", "right"]), "width": rng.choice([None, None, 1, 2, 0, -2])})
            else:
                ops.append({"op": "render"})
        ops.append({"op": "render"})
        return {"config": cfg, "ops": ops}

    def execute(self, scen: dict) -> Result:
        res = Result()
        run = (_ListRun if scen["config"]["inner"]["k"] == "listbox" else _Run)(scen, res)
        res.digest = run.run_stack() if scen["config"].get("stack") else run.run()
        ops = [o["op"] for o in scen["ops"]]
        if ops.count("render") >= 2 and any(o in ("key", "wheel", "setpos", "resize") for o in ops):
            res.nontrivial = True
        if run.log.keep:
            res.info["log"] = run.log.lines
        return res

    def simplify(self, scen: dict):
        cfg = scen["config"]
        inner = cfg["inner"]
        if inner["k"] == "listbox":
            its = inner["items"]
            if len(its) > 1:
                yield dict(scen, config=dict(cfg, inner=dict(inner, items=its[: len(its) // 2])))
                yield dict(scen, config=dict(cfg, inner=dict(inner, items=its[:-1])))
            return
        if cfg.get("bar"):
            yield dict(scen, config={k: v for k, v in cfg.items() if k != "bar"})
        if inner["k"] == "pile" and len(inner["items"]) > 1:
            for i in range(len(inner["items"])):
                yield dict(scen, config=dict(cfg, inner=dict(inner, items=inner["items"][:i] + inner["items"][i + 1 :])))
        if inner["k"] == "text" and inner["text"].count("\n") > 1:
            lines = inner["text"].split("\n")
            yield dict(scen, config=dict(cfg, inner=dict(inner, text="\n".join(lines[: len(lines) // 2]))))


ENGINE = ScrollEngine()
