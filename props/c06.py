"""C06 - the canvas cache is invisible: cached rendering equals fresh rendering   (engine `cache`)

Environment-decided dimensions: the lifetime of canvases (CanvasCache holds weak references and
cleans up whenever a canvas dies - when the screen replaces its last frame, when unrelated code
drops one, when the cyclic collector runs) and how many mutations / input events happen between
two renders.  Both are scheduled operations here (hold / drop / gc.collect / render).

Oracle: two trees built from one declarative spec are driven through the same history; the twin
has `_invalidate()` called on every one of its widgets before every operation, i.e. it is urwid
itself with "the cache emptied first" (DESIGN.md section 5, C06).
"""

from __future__ import annotations

import gc
import os
import random

from simkit import core
from simkit.core import EventLog
from simkit.runner import Engine, Result

P = "C06"
COLS = [1, 4, 9, 16, 25]
ROWS = [1, 3, 6, 10]
TEXTS = ["", "a", "hello world", "one two three four five six seven", "line1\nline2", "wide 日本語 text", "x" * 40, "tab\there"]
class OldStyleWalker(list):
    """A list walker as applications wrote them before ListWalker existed: get_focus / set_focus / get_next / get_prev on
    a plain class, positions are indices, no 'modified' signal."""

    focus = 0

    def _get(self, pos):
        return (self[pos], pos) if isinstance(pos, int) and 0 <= pos < len(self) else (None, None)

    def get_focus(self):
        if not self:
            return None, None
        self.focus = max(0, min(self.focus, len(self) - 1))
        return self._get(self.focus)

    def set_focus(self, position):
        if not isinstance(position, int) or not 0 <= position < len(self):
            e = IndexError(f"No widget at position {position}")
            e.verif_application_side = True
            raise e
        self.focus = position

    def get_next(self, position):
        return self._get(position + 1) if isinstance(position, int) else (None, None)

    def get_prev(self, position):
        return self._get(position - 1) if isinstance(position, int) else (None, None)


VALIGN_REQUESTS = ["top", "middle", "bottom", ["relative", 30], ["relative", 100]]
KEYS = ["up", "down", "left", "right", "a", " ", "enter", "tab", "page down", "page up", "home", "end", "backspace", "delete", "Z"]
FLOW_LEAVES = ("Text", "Edit", "Button", "CheckBox", "Divider", "ProgressBar", "RadioButton", "SelectableIcon")
_RADIO_GROUPS: dict = {}  # radio buttons of one tree share groups (reset by every run)
_CUR_TREE = [0]  # which of the two trees (cached = 1, twin = 2) is being built / mutated


_LAYOUTS = None


def _layouts():
    """Two layout objects: the standard one and one that breaks lines anywhere whatever the wrap mode says."""
    global _LAYOUTS  # noqa: PLW0603
    if _LAYOUTS is None:
        from urwid import text_layout  # noqa: PLC0415

        class AnywhereLayout(text_layout.StandardTextLayout):
            def layout(self, text, width, align, wrap):
                return super().layout(text, width, align, "any" if wrap == "space" else wrap)

        _LAYOUTS = (text_layout.StandardTextLayout(), AnywhereLayout())
    return _LAYOUTS


class Node:
    __slots__ = ("aux", "kids", "kind", "spec", "w")

    def __init__(self, spec, kind, w, kids=(), aux=None):
        self.spec = spec
        self.kind = kind
        self.w = w
        self.kids = list(kids)
        self.aux = aux


def build(spec: dict) -> Node:  # noqa: C901, PLR0911, PLR0912
    import urwid  # noqa: PLC0415

    t = spec["w"]
    if t == "Text":
        return Node(spec, "flow", urwid.Text(spec.get("text", ""), align=spec.get("align", "left"), wrap=spec.get("wrap", "space")))
    if t == "Edit":
        return Node(spec, "flow", urwid.Edit(spec.get("caption", ""), spec.get("text", ""), multiline=spec.get("multiline", False)))
    if t == "Button":
        return Node(spec, "flow", urwid.Button(spec.get("label", "ok")))
    if t == "CheckBox":
        return Node(spec, "flow", urwid.CheckBox(spec.get("label", "cb"), state=spec.get("state", False), has_mixed=bool(spec.get("mixed", False))))
    if t == "Divider":
        return Node(spec, "flow", urwid.Divider(spec.get("ch", "-"), top=spec.get("top", 0), bottom=spec.get("bottom", 0)))
    if t == "ProgressBar":
        return Node(spec, "flow", urwid.ProgressBar("pn", "pc", current=spec.get("cur", 30), done=spec.get("done", 100), satt=spec.get("satt")))
    if t == "RadioButton":
        group = _RADIO_GROUPS.setdefault((_CUR_TREE[0], spec.get("g", 0)), [])
        return Node(spec, "flow", urwid.RadioButton(group, spec.get("label", "rb"), state=bool(spec.get("state", False))))
    if t == "SelectableIcon":
        return Node(spec, "flow", urwid.SelectableIcon(spec.get("text", "icon"), cursor_position=spec.get("cp", 0)))
    if t == "BarGraph":
        bg = urwid.BarGraph(["bg", "b1", "b2"])
        bg.set_data([[v] for v in spec.get("data", [1, 3, 2])], spec.get("top", 5))
        return Node(spec, "box", bg)
    if t == "BigText":
        fonts = (urwid.Thin3x3Font, urwid.HalfBlock5x4Font)
        markup = spec.get("text", "12")
        return Node(spec, "fixed", urwid.BigText((spec["attr"], markup) if spec.get("attr") else markup, fonts[spec.get("font", 0) % 2]()))
    if t == "GraphVScale":
        return Node(spec, "box", urwid.GraphVScale([(y, str(y)) for y in spec.get("labels", [1, 3])], spec.get("top", 5)))
    if t == "SolidFill":
        return Node(spec, "box", urwid.SolidFill(spec.get("ch", "#")))
    kids = [build(k) for k in spec.get("kids", [])]
    if t == "Pile":
        return Node(spec, "flow", urwid.Pile([k.w for k in kids], focus_item=None), kids)
    if t == "Columns":
        items = []
        for i, k in enumerate(kids):
            mode = spec.get("modes", ["weight"])[i % len(spec.get("modes", ["weight"]))]
            if mode == "pack" and k.spec["w"] not in ("Text", "Edit", "Button", "CheckBox"):
                mode = "weight"  # only widgets with a meaningful pack() are sized by their content
            items.append((6, k.w) if mode == "given" else ("weight", 2, k.w) if mode == "weight2" else ("pack", k.w) if mode == "pack" else k.w)
        return Node(spec, "flow", urwid.Columns(items, dividechars=spec.get("div", 0)), kids)
    if t == "GridFlow":
        return Node(spec, "flow", urwid.GridFlow([k.w for k in kids], spec.get("cw", 6), 1, 0, "left"), kids)
    if t == "Padding":
        width = spec.get("width", "relative")
        if kids[0].kind == "fixed":
            # a fixed widget (BigText) shown through a clipping Padding, which makes it a flow widget
            return Node(spec, "flow", urwid.Padding(kids[0].w, width="clip"), kids)
        if width == "clip" and (kids[0].kind != "flow" or kids[0].spec["w"] not in ("Text", "Edit", "Button", "CheckBox")):
            # (containers can be shown at their natural size too when everything in them can: the Padding then renders
            # them with the size () and they never see a width)
            if not (kids[0].kind == "flow" and kids[0].spec["w"] in ("Columns", "Pile") and "fixed" in kids[0].w.sizing()):
                width = "relative"
        return Node(spec, kids[0].kind, urwid.Padding(kids[0].w, left=spec.get("left", 1), right=spec.get("right", 1), **({"width": "clip"} if width == "clip" else {})), kids)
    if t == "AttrMap":
        return Node(spec, kids[0].kind, urwid.AttrMap(kids[0].w, spec.get("attr", "a"), spec.get("fattr", "f")), kids)
    if t == "LineBox":
        return Node(spec, kids[0].kind, urwid.LineBox(kids[0].w, title=spec.get("title", "")), kids)
    if t == "WidgetPlaceholder":
        return Node(spec, kids[0].kind, urwid.WidgetPlaceholder(kids[0].w), kids)
    if t == "BoxAdapter":
        return Node(spec, "flow", urwid.BoxAdapter(kids[0].w, spec.get("h", 3)), kids)
    if t == "Filler":
        return Node(spec, "box", urwid.Filler(kids[0].w, valign=spec.get("valign", "top")), kids)
    if t == "ListBox":
        walker = urwid.SimpleFocusListWalker([k.w for k in kids]) if spec.get("fw", True) else urwid.SimpleListWalker([k.w for k in kids])
        return Node(spec, "box", urwid.ListBox(walker), kids, walker)
    if t == "Frame":
        # kids: body (box), header (flow), footer (flow)
        return Node(spec, "box", urwid.Frame(kids[0].w, header=kids[1].w, footer=kids[2].w, focus_part=spec.get("fp", "body")), kids)
    if t == "Overlay":
        return Node(spec, "box", urwid.Overlay(kids[0].w, kids[1].w, "center", ("relative", 60), "middle", ("relative", 60)), kids)
    if t == "AttrWrap":
        return Node(spec, kids[0].kind, urwid.AttrWrap(kids[0].w, spec.get("attr", "a"), spec.get("fattr", "f")), kids)
    if t == "Scrollable":
        return Node(spec, "box", urwid.Scrollable(kids[0].w), kids)
    if t == "ScrollBar":
        return Node(spec, "box", urwid.ScrollBar(kids[0].w), kids)
    raise core.HarnessError(f"unknown widget spec {t}")


def all_nodes(n: Node):
    yield n
    for k in n.kids:
        yield from all_nodes(k)


def node_at(root: Node, path) -> Node:
    n = root
    for i in path:
        if not n.kids:
            break
        n = n.kids[i % len(n.kids)]
    return n


def snapshot(canv):
    rows = [[(a, cs, bytes(t)) for a, cs, t in row] for row in canv.content()]
    return rows, canv.cursor


def norm_rows(rows):
    """Merge adjacent runs with equal attribute / charset: run boundaries are not content."""
    out = []
    for row in rows:
        r = []
        for a, cs, t in row:
            if r and r[-1][0] == a and r[-1][1] == cs:
                r[-1] = (a, cs, r[-1][2] + t)
            else:
                r.append((a, cs, t))
        out.append(r)
    return out


class _Run:
    def __init__(self, scen: dict, res: Result) -> None:
        self.scen = scen
        self.res = res
        self.log = EventLog(keep=bool(os.environ.get("VERIF_KEEP_LOG")))
        self.has_scrollable = False
        self.shift_flag_diverged = False
        self.zero_row_list_item = False

    def edit_flags_differ(self) -> bool:
        """Edit keeps a 'shift the view to the cursor' flag that render(focus) sets: a render answered
        from the cache does not update it, so the two trees can disagree about it (known finding)."""
        import urwid  # noqa: PLC0415

        for a, b in zip(all_nodes(self.tree), all_nodes(self.twin)):
            if isinstance(a.w, urwid.Edit) and bool(a.w._shift_view_to_cursor) != bool(b.w._shift_view_to_cursor):  # noqa: SLF001
                return True
        return False

    def twin_has_rowless_list_item(self) -> bool:
        """Some ListBox holds an item that renders no rows at all (asked of the twin, so the cached tree is not touched)."""
        for n in all_nodes(self.twin):
            if n.spec["w"] != "ListBox":
                continue
            for c in n.kids:
                if c.kind != "flow" or c.spec["w"] not in ("Pile", "Columns", "GridFlow", "AttrMap", "AttrWrap", "Padding", "WidgetPlaceholder", "LineBox"):
                    continue
                try:
                    if c.w.rows((9,), False) == 0:
                        return True
                except Exception as e:  # noqa: BLE001
                    if core.raised_in_harness(e):
                        raise
        return False

    def listbox_focus_request_pending(self) -> bool:
        """A ListBox resolves a deferred set_focus() inside its next render/rows/keypress by calling
        move_cursor_to_coords() on the new focus widget, which for an Edit consults the view-shift flag just
        like a click does: such an operation counts as input for the known finding about that flag."""
        import urwid  # noqa: PLC0415

        return any(isinstance(n.w, urwid.ListBox) and n.w.set_focus_pending not in (None, "first selectable") for n in all_nodes(self.tree))

    def violate(self, clause, sig, msg=""):
        if self.has_scrollable and clause in ("C06.1", "C06.2", "C06.3", "C06.5"):
            # Scrollable / ScrollBar resolve and store their state inside render(); see known findings
            sig += " [tree-has-Scrollable]"
        elif self.shift_flag_diverged and clause in ("C06.1", "C06.3"):
            sig += " [edit-view-shift-flag-diverged-before-input]"
        elif self.zero_row_list_item and clause in ("C06.1", "C06.2"):
            sig += " [listbox-item-without-rows]"
        self.res.violate(P, clause, sig, msg)
        self.log.add("violation", f"{clause} {sig}")

    def size_for(self, n: Node, op: dict):
        c = COLS[op.get("c", 2) % len(COLS)]
        r = ROWS[op.get("r", 1) % len(ROWS)]
        if n.kind == "fixed":
            return ()
        return (c,) if n.kind == "flow" else (c, r)

    def invalidate_twin(self) -> None:
        for n in all_nodes(self.twin):
            n.w._invalidate()  # noqa: SLF001

    # ---- one operation on one tree; returns a comparable outcome ------------------------
    def apply(self, root: Node, op: dict, is_cached_tree: bool):  # noqa: C901, PLR0911, PLR0912, PLR0915
        _CUR_TREE[0] = 1 if is_cached_tree else 2
        k = op["op"]
        if k in ("render", "rows"):
            n = node_at(root, op.get("path", []))
            size = self.size_for(n, op)
            focus = bool(op.get("focus", False))
            if k == "rows":
                if n.kind != "flow":
                    return ("skip",)
                return ("rows", n.w.rows(size, focus))
            canv = n.w.render(size, focus)
            rows, cur = snapshot(canv)
            if is_cached_tree and op.get("hold"):
                self.pool.append((canv, rows, cur, list(op.get("path", [])), size, focus))
                self.res.fault("canvas_held")
            return ("render", norm_rows(rows), cur)
        if k == "key":
            size = (COLS[op.get("c", 3) % len(COLS)], ROWS[op.get("r", 2) % len(ROWS)])
            if root.kind == "flow":
                size = size[:1]
            if not root.w.selectable():
                return ("key", "unselectable")
            return ("key", root.w.keypress(size, KEYS[op.get("k", 0) % len(KEYS)]))
        if k == "mouse":
            size = (COLS[op.get("c", 3) % len(COLS)], ROWS[op.get("r", 2) % len(ROWS)])
            if root.kind == "flow":
                size = size[:1]
            return ("mouse", bool(root.w.mouse_event(size, "mouse press", 1, op.get("x", 0) % size[0], op.get("y", 0) % (size[1] if len(size) > 1 else 3), True)))
        if k == "mutate":
            n = node_at(root, op.get("path", []))
            return ("mutate", self.mutate(n, op))
        return ("skip",)

    def mutate(self, n: Node, op: dict) -> str:  # noqa: C901, PLR0911, PLR0912, PLR0915
        import urwid  # noqa: PLC0415

        t = n.spec["w"]
        w = n.w
        m = op.get("m", 0)
        txt = TEXTS[op.get("t", 0) % len(TEXTS)]
        if t in ("Text", "SelectableIcon") and m >= 8:
            # another layout object with the modes unchanged (a custom TextLayout swapped in at run time)
            w.set_layout(w.align, w.wrap, _layouts()[op.get("t", 0) % 2])
            return "layout"
        if t in ("Text", "SelectableIcon"):
            if m % 4 == 0:
                w.set_text(txt)
            elif m % 4 == 1:
                w.set_text([("hl", txt[:3]), txt[3:]])
            elif m % 4 == 2:
                w.set_wrap_mode(["space", "any", "clip"][op.get("t", 0) % 3])
            else:
                w.set_align_mode(["left", "center", "right"][op.get("t", 0) % 3])
            return "text"
        if t == "RadioButton":
            if m % 2:
                w.set_label(txt[:12])
            else:
                w.set_state(not w.state if op.get("t", 0) % 2 else True, do_callback=False)
            return "radio"
        if t == "BarGraph":
            k3 = op.get("t", 0)
            if m % 3 == 0:
                w.set_data([[(k3 + j) % 6] for j in range(1 + k3 % 4)], 5 + k3 % 3)
            elif m % 3 == 1:
                w.set_bar_width([None, 1, 2][k3 % 3])
            else:
                w.set_segment_attributes(["bg", f"b{k3 % 3}", "b2"])
            return "bargraph"
        if t == "BigText":
            k3 = op.get("t", 0)
            cur = w.get_text()[0]
            if m % 3 == 0:
                w.set_text(["12", "7", "12:0", ""][k3 % 4])
            elif m % 3 == 1:
                # the same characters with other attributes
                w.set_text([("hl", cur), cur, [("hl", cur[:1]), cur[1:]]][k3 % 3] if cur else "1")
            else:
                import urwid as _u  # noqa: PLC0415

                w.set_font((_u.Thin3x3Font, _u.HalfBlock5x4Font)[k3 % 2]())
            return "bigtext"
        if t == "GraphVScale":
            k3 = op.get("t", 0)
            w.set_scale([(1 + (k3 + j) % 4, "abcd"[(k3 + j) % 4]) for j in range(1 + k3 % 3)], 5 + m % 2)
            return "vscale"
        if t == "AttrWrap":
            if m % 2:
                w.set_attr(f"a{op.get('t', 0) % 3}")
            else:
                w.set_focus_attr(f"f{op.get('t', 0) % 3}")
            return "attrwrap"
        if t == "Filler":
            new = build(op.get("new", {"w": "Text", "text": "filled"}))
            if new.kind != "flow":
                return "none"
            w.body = new.w
            n.kids = [new]
            return "filler-body"
        if t == "BoxAdapter":
            new = build({"w": "SolidFill", "ch": "+-*"[op.get("t", 0) % 3]})
            w.box_widget = new.w
            n.kids = [new]
            return "boxadapter-body"
        if t == "Overlay":
            w.set_overlay_parameters(["left", "center", "right"][op.get("t", 0) % 3], ("relative", [60, 40, 90][m % 3]), ["top", "middle", "bottom"][op.get("i", 0) % 3], ("relative", [60, 30, 100][op.get("t", 0) % 3]))
            return "overlay-params"
        if t == "Edit":
            if m % 5 == 0:
                w.set_edit_text(txt.replace("\n", " "))
            elif m % 5 == 1:
                w.set_caption(txt[:6])
            elif m % 5 == 2:
                w.set_edit_pos(op.get("t", 0))
            elif m % 5 == 3:
                w.insert_text("q")
            else:
                w.set_mask([None, "*", "#"][op.get("t", 0) % 3])
            return "edit"
        if t == "Button":
            w.set_label(txt[:12])
            return "button"
        if t == "CheckBox":
            if m % 3 == 1:
                w.set_label(txt[:12])
            elif m % 3 == 2 and w.has_mixed:
                w.set_state("mixed", do_callback=False)
            else:
                w.set_state(not w.state, do_callback=False)
            return "checkbox"
        if t == "GridFlow" and m % 7 == 6:
            w.cell_width = [4, 6, 9][op.get("t", 0) % 3]
            return "cell_width"
        if t == "ProgressBar" and m % 5 == 4:
            w.done = [100, 1000, 7][op.get("t", 0) % 3]
            return "progress-done"
        if t == "ProgressBar":
            if m % 2:
                # a small step: the percentage text may stay the same while the filled part moves
                w.set_completion(w.current + [1, -1, 2, 0.5, 3, -3, 4, -2][op.get("t", 0) % 8])
            else:
                w.set_completion((op.get("t", 0) * 17) % 101 * w.done / 100)
            return "progress"
        if t == "Divider":
            return "none"
        if t == "AttrMap":
            if m % 2:
                w.set_attr_map({None: f"a{op.get('t', 0) % 3}"})
            else:
                w.set_focus_map({None: f"f{op.get('t', 0) % 3}"})
            return "attrmap"
        if t == "LineBox":
            w.set_title(txt[:8])
            return "linebox"
        if t == "Padding" and n.kids and n.kids[0].kind == "fixed":
            return "none"  # a clipping Padding around a fixed-only widget: another width type would be a misuse
        if t == "Padding":
            # only the property setters are public mutators (left/right are plain attributes)
            if m % 2:
                w.align = ["left", "center", "right"][op.get("t", 0) % 3]
            else:
                w.width = [("relative", 100), ("relative", 60), 5, "pack"][op.get("t", 0) % 4]
            return "padding"
        if t == "WidgetPlaceholder":
            new = build(op.get("new", {"w": "Text", "text": "swapped"}))
            if new.kind != n.kind:
                return "none"
            w.original_widget = new.w
            n.kids = [new]
            return "swap"
        if t in ("Pile", "Columns", "GridFlow"):
            if m % 4 == 0:
                new = build(op.get("new", {"w": "Text", "text": "ins"}))
                if new.kind != "flow":
                    return "none"
                i = op.get("i", 0) % (len(n.kids) + 1)
                if t == "Pile":
                    w.contents.insert(i, (new.w, w.options()))
                elif t == "Columns":
                    w.contents.insert(i, (new.w, w.options()))
                else:
                    w.contents.insert(i, (new.w, w.options("given", n.spec.get("cw", 6))))
                n.kids.insert(i, new)
                return "insert"
            if m % 4 == 1:
                if len(n.kids) <= (0 if t == "Pile" else 1):  # a Pile may be emptied: it then has no rows at all
                    return "none"
                i = op.get("i", 0) % len(n.kids)
                del w.contents[i]
                del n.kids[i]
                return "delete"
            if m % 4 == 2:
                if not n.kids:
                    return "none"
                i = op.get("i", 0) % len(n.kids)
                try:
                    w.focus_position = i
                except IndexError:
                    return "focus-rejected"
                return "focus"
            if not n.kids:
                return "none"
            i = op.get("i", 0) % len(n.kids)
            new = build(op.get("new", {"w": "Text", "text": "repl"}))
            if new.kind != "flow":
                return "none"
            w.contents[i] = (new.w, w.contents[i][1])
            n.kids[i] = new
            return "replace"
        if t == "ListBox" and (op.get("va") is not None or (op.get("sf") is None and m == 10)) and n.kids:
            # the application asks for the focus item to be aligned (ListBox.set_focus_valign): a request that the next
            # render resolves - so the next render must not come out of the cache
            va = VALIGN_REQUESTS[(op.get("va") if op.get("va") is not None else op.get("t", 0)) % len(VALIGN_REQUESTS)]
            w.set_focus_valign(tuple(va) if isinstance(va, list) else va)
            return "focus_valign"
        if t == "ListBox" and op.get("sf") is None and op.get("va") is None and m == 6 and n.kids and not isinstance(n.aux, OldStyleWalker):
            # the application replaces the body by a walker of the old kind: the four protocol methods on a class that
            # does not derive from ListWalker and has no 'modified' signal (the ListBox then stops caching its own canvases;
            # what its ancestors had cached of the old body must go all the same)
            try:
                fpos = w.focus_position
            except IndexError:
                fpos = 0
            n.kids.reverse()  # (the new body lists the items the other way round: the replacement is visible at once)
            ow = OldStyleWalker([k.w for k in n.kids])
            ow.focus = fpos if isinstance(fpos, int) and 0 <= fpos < len(ow) else 0
            w.body = ow
            n.aux = ow
            return "old_style_body"
        if t == "ListBox" and op.get("sf") is not None:
            # the application scrolls the list itself (ListBox.shift_focus, a documented method)
            w.shift_focus((COLS[op.get("c", 3) % len(COLS)], ROWS[op.get("r", 2) % len(ROWS)]), int(op["sf"]))
            return "shift_focus"
        if t == "ListBox":
            body = n.aux
            if m % 4 == 0:
                new = build(op.get("new", {"w": "Text", "text": "ins"}))
                if new.kind != "flow":
                    return "none"
                i = op.get("i", 0) % (len(n.kids) + 1)
                body.insert(i, new.w)
                n.kids.insert(i, new)
                return "insert"
            if m % 4 == 1:
                if len(n.kids) <= 1:
                    return "none"
                i = op.get("i", 0) % len(n.kids)
                del body[i]
                del n.kids[i]
                return "delete"
            if m % 4 == 2:
                if not n.kids:
                    return "none"
                w.set_focus(op.get("i", 0) % len(n.kids))
                return "focus"
            if not n.kids:
                return "none"
            i = op.get("i", 0) % len(n.kids)
            new = build(op.get("new", {"w": "Text", "text": "repl"}))
            if new.kind != "flow":
                return "none"
            body[i] = new.w
            n.kids[i] = new
            return "replace"
        if t == "Frame":
            if m % 3 == 0:
                new = build(op.get("new", {"w": "Text", "text": "hdr2"}))
                if new.kind != "flow":
                    return "none"
                w.header = new.w
                n.kids[1] = new
                return "header"
            if m % 3 == 1:
                new = build(op.get("new", {"w": "Text", "text": "ftr2"}))
                if new.kind != "flow":
                    return "none"
                w.footer = new.w
                n.kids[2] = new
                return "footer"
            w.focus_position = ["body", "header", "footer"][op.get("i", 0) % 3]
            return "focus_part"
        if t == "Scrollable":
            w.set_scrollpos(op.get("i", 0) % 7)
            return "scrollpos"
        del urwid
        return "none"

    # ------------------------------------------------------------------------------------
    def run(self) -> str:  # noqa: C901, PLR0912
        import urwid  # noqa: PLC0415

        scen, res = self.scen, self.res
        core.gc_freeze_once()
        gc.collect()
        gc.disable()
        urwid.util.set_encoding("utf-8")
        urwid.CanvasCache.clear()
        try:
            self.has_scrollable = '"Scrollable"' in repr(scen).replace("'", '"')
            _RADIO_GROUPS.clear()
            _CUR_TREE[0] = 1
            self.tree = build(scen["tree"])
            _CUR_TREE[0] = 2
            self.twin = build(scen["tree"])
            self.pool = []
            hits0 = urwid.CanvasCache.hits
            for i, op in enumerate(scen["ops"]):
                k = op["op"]
                self.log.add("op", [i, k, repr({x: y for x, y in op.items() if x not in ("op", "new")})])
                if k == "drop":
                    if self.pool:
                        del self.pool[op.get("i", 0) % len(self.pool)]
                        res.fault("canvas_dropped")
                    self.check_pool(i)
                    continue
                if k == "collect":
                    gc.collect()
                    res.fault("gc_collect")
                    self.check_pool(i)
                    continue
                if not self.zero_row_list_item and self.twin_has_rowless_list_item():
                    # an item of a ListBox that has no rows at all (an emptied Pile); sticky for the run (known finding)
                    self.zero_row_list_item = True
                    res.probe("listbox_item_without_rows")
                if (k in ("mouse", "key") or self.listbox_focus_request_pending()) and not self.shift_flag_diverged and self.edit_flags_differ():
                    self.shift_flag_diverged = True
                    res.probe("edit_view_shift_flag_diverged")
                h_before = urwid.CanvasCache.hits
                out_c = self.safe(self.tree, op, True)
                hit = urwid.CanvasCache.hits > h_before
                self.invalidate_twin()
                out_f = self.safe(self.twin, op, False)
                if hit and k in ("render", "rows"):
                    res.probe("cache_hit_root" if not op.get("path") else "cache_hit_subtree")
                self.log.add("out", [i, repr(out_c)[:300]])
                if out_c != out_f:
                    self.report_difference(i, op, out_c, out_f)
                    break
                self.check_pool(i)
                res.states.add(f"{k}/{out_c[0]}/{out_c[1] if out_c[0] in ('mutate', 'exc') else ''}/{min(len(self.pool), 3)}/{hit}")
            if urwid.CanvasCache.hits > hits0:
                res.nontrivial = True
        finally:
            self.pool = []
            self.tree = self.twin = None
            _RADIO_GROUPS.clear()
            urwid.CanvasCache.clear()
            gc.enable()
        return self.log.digest()

    def safe(self, root, op, is_cached_tree):
        try:
            return self.apply(root, op, is_cached_tree)
        except Exception as e:  # noqa: BLE001
            if core.raised_in_harness(e):
                raise core.HarnessError(f"harness exception in op {op}: {core.format_exc(e)}") from e
            return ("exc", type(e).__name__, core.exc_signature(e), "rows but rendered" in str(e))

    def report_difference(self, i, op, out_c, out_f) -> None:
        k = op["op"]
        path_kind = node_at(self.tree, op.get("path", [])).spec["w"] if k != "key" and k != "mouse" else self.tree.spec["w"]
        if out_c[0] == "exc" or out_f[0] == "exc":
            if (out_c[0] == "exc" and out_c[3]) or (out_f[0] == "exc" and out_f[3]):
                # "calculated N rows but rendered M": an item whose rows() disagrees with its own render() (the render-size
                # contract, C01).  Which of the two answers a container sees first depends on what happens to be cached;
                # the disagreement itself is not the cache's.
                self.res.probe("item_rows_disagree_with_its_render")
                return
            which = "cached-tree-only" if out_f[0] != "exc" else ("fresh-tree-only" if out_c[0] != "exc" else "different")
            exc = out_c if out_c[0] == "exc" else out_f
            self.violate("C06.5", f"exception-{which}:{exc[2]} op={k}", f"step {i} {op}: cached {out_c!r:.300} fresh {out_f!r:.300}")
        elif k == "render":
            what = "cursor" if out_c[1] == out_f[1] else "content"
            self.violate("C06.1", f"cached-render-differs-from-fresh ({what}) widget={path_kind}", self.diff_msg(i, op, out_c, out_f))
        elif k == "rows":
            self.violate("C06.2", f"cached-rows-differ-from-fresh widget={path_kind}", f"step {i} {op}: cached {out_c[1]} fresh {out_f[1]}")
        else:
            self.violate("C06.3", f"{k}-result-differs-between-cached-and-fresh widget={path_kind}", f"step {i} {op}: cached {out_c!r:.200} fresh {out_f!r:.200}")

    def diff_msg(self, i, op, out_c, out_f) -> str:
        rc, rf = out_c[1], out_f[1]
        for y, (a, b) in enumerate(zip(rc, rf)):
            if a != b:
                return f"step {i} {op}: row {y}: cached {a!r:.300} fresh {b!r:.300}; cursors {out_c[2]} {out_f[2]}"
        return f"step {i} {op}: rows {len(rc)} vs {len(rf)}; cursors {out_c[2]} {out_f[2]}"

    def check_pool(self, i) -> None:
        for canv, rows, cur, path, size, focus in self.pool:
            try:
                now_rows, now_cur = snapshot(canv)
            except Exception as e:  # noqa: BLE001
                self.violate("C06.4", f"held-canvas-broken:{core.exc_signature(e)}", f"after step {i}")
                return
            if now_rows != rows or now_cur != cur:
                self.violate("C06.4", "held-canvas-modified", f"after step {i}: canvas of path {path} size {size} focus {focus} changed")
                return


class CacheEngine(Engine):
    prop = P
    name = "cache"
    level = "exploration"
    tiers = {"quick": 40000, "thorough": 1200000}
    rule = (
        "seeded widget trees (<= 12 widgets, depth <= 4, from Text/Edit/Button/CheckBox/Divider/ProgressBar/SolidFill/Pile/Columns/"
        "GridFlow/Padding/AttrMap/LineBox/WidgetPlaceholder/BoxAdapter/Filler/ListBox/Frame/Overlay/Scrollable/ScrollBar) driven "
        "through 1-25 operations: render/rows of the root or any subtree at a few sizes and focus values, public mutators, "
        "contents/walker insert/delete/replace, focus changes, keypress/mouse on the root, hold a returned canvas, drop a held "
        "canvas, gc.collect(). Every operation is applied to a cached tree and to a twin whose widgets are all _invalidate()d "
        "first. Non-trivial: at least one render/rows call on the cached tree was answered from the cache; distinct = distinct "
        "event-log digests among those."
    )
    assumptions = [
        "urwid is deterministic given the call sequence (checked by the twin-against-twin self-test)",
        "run boundaries inside a row are not content: adjacent runs with equal attribute and charset are merged before comparing",
        "gc is disabled for the run; cyclic garbage is collected only by scheduled gc.collect() operations",
        "an exception raised identically on both trees is behaviour outside C06",
    ]
    components = {"real": ["CanvasCache, Widget.render/rows cache wrappers, every widget class in the catalogue, list walkers, MonitoredList"], "stub": [], "driven": ["canvas lifetime (hold/drop)", "gc.collect timing", "render batching"]}
    required_probes = ("cache_hit_root", "cache_hit_subtree")
    reducible = ("ops",)

    # ---- generation ----------------------------------------------------------------------
    def gen_tree(self, rng: random.Random, kind: str, depth: int, budget: list[int]) -> dict:  # noqa: C901, PLR0911, PLR0912
        budget[0] -= 1
        leaf = depth <= 0 or budget[0] <= 0
        txt = lambda: rng.choice(TEXTS)  # noqa: E731
        if kind == "flow":
            r = rng.random()
            if leaf or r < 0.35:
                t = rng.choice(FLOW_LEAVES)
                if t == "Text":
                    return {"w": "Text", "text": txt(), "wrap": rng.choice(["space", "any", "clip"]), "align": rng.choice(["left", "center", "right"])}
                if t == "Edit":
                    return {"w": "Edit", "caption": rng.choice(["", "c:"]), "text": txt().replace("\n", " "), "multiline": rng.random() < 0.3}
                if t == "Button":
                    return {"w": "Button", "label": txt()[:10]}
                if t == "CheckBox":
                    return {"w": "CheckBox", "label": txt()[:10], "state": rng.random() < 0.5, "mixed": rng.random() < 0.3}
                if t == "RadioButton":
                    return {"w": "RadioButton", "label": txt()[:10], "state": rng.random() < 0.5, "g": rng.randrange(2)}
                if t == "SelectableIcon":
                    return {"w": "SelectableIcon", "text": txt()[:12] or "i", "cp": rng.randrange(3)}
                if t == "Divider":
                    return {"w": "Divider", "ch": rng.choice(["-", " ", "="]), "top": rng.randint(0, 1)}
                done = rng.choice([100, 100, 1000, 1000, 7])
                return {"w": "ProgressBar", "cur": rng.randint(0, done), "done": done, "satt": rng.choice([None, "ps"] if done > 100 else [None, None, "ps"])}
            if r < 0.5:
                if rng.random() < 0.25:
                    # a "menu" of unselectable rows that are highlighted through their focus map: what is drawn depends on
                    # the container's focus position although nothing in it takes input
                    budget[0] -= 2
                    return {"w": rng.choice(["Pile", "Pile", "Columns"]), "modes": ["weight"], "div": 1, "kids": [{"w": "AttrMap", "attr": "a", "fattr": "f", "kids": [{"w": "Text", "text": rng.choice(TEXTS[1:5]), "wrap": "space", "align": "left"}]} for _ in range(rng.randint(2, 4))]}
                return {"w": "Pile", "kids": [self.gen_tree(rng, "flow", depth - 1, budget) for _ in range(rng.choice([0, 1, 1, 2, 2, 3]))]}
            if r < 0.62:
                cspec = {"w": "Columns", "kids": [self.gen_tree(rng, "flow", depth - 1, budget) for _ in range(rng.randint(1, 3))], "modes": [rng.choice(["weight", "given", "weight2", "pack", "pack"]) for _ in range(3)], "div": rng.randint(0, 1)}
                for ci in range(len(cspec["kids"])):
                    # a column sized by its content is hidden while that content is empty
                    if cspec["modes"][ci] == "pack" and rng.random() < 0.5:
                        cspec["kids"][ci] = {"w": "Text", "text": rng.choice(["", "", "ab"]), "wrap": "space", "align": "left"}
                return cspec
            if r < 0.68:
                return {"w": "GridFlow", "kids": [self.gen_tree(rng, "flow", 0, budget) for _ in range(rng.randint(1, 4))], "cw": rng.choice([4, 6, 9])}
            if r < 0.70:
                return {"w": "Padding", "width": "clip", "left": 0, "right": 0, "kids": [{"w": "BigText", "text": rng.choice(["12", "7", "12:0"]), "attr": rng.choice([None, None, "hl"]), "font": rng.randrange(2)}]}
            if r < 0.76:
                if rng.random() < 0.2:
                    # a row of content-sized columns shown at its natural size: rendered with the size () only
                    budget[0] -= 2
                    leafs = [rng.choice([{"w": "Text", "text": rng.choice(TEXTS[1:3]), "wrap": "space", "align": "left"}, {"w": "Button", "label": "ok"}, {"w": "CheckBox", "label": "c", "state": False, "mixed": False}, {"w": "Edit", "caption": "", "text": "ed", "multiline": False}]) for _ in range(rng.randint(1, 3))]
                    return {"w": "Padding", "width": "clip", "left": rng.choice([0, 1]), "right": 0, "kids": [{"w": "Columns", "kids": leafs, "modes": ["pack", "pack", "pack"], "div": rng.randint(0, 1)}]}
                pspec = {"w": "Padding", "kids": [self.gen_tree(rng, "flow", depth - 1, budget)], "left": rng.choice([0, 1, 2, 2, 9]), "right": rng.choice([0, 1, 2, 9]), "width": rng.choice(["relative", "relative", "clip"])}
                if pspec["width"] == "clip" and rng.random() < 0.6:
                    pspec["kids"] = [{"w": "Text", "text": rng.choice(["", "", "ab"]), "wrap": "space", "align": "left"}]
                return pspec
            if r < 0.84:
                return {"w": rng.choice(["AttrMap", "AttrMap", "AttrWrap"]), "kids": [self.gen_tree(rng, "flow", depth - 1, budget)], "attr": "a", "fattr": "f"}
            if r < 0.90:
                return {"w": "LineBox", "kids": [self.gen_tree(rng, "flow", depth - 1, budget)], "title": rng.choice(["", "T"])}
            if r < 0.95:
                return {"w": "WidgetPlaceholder", "kids": [self.gen_tree(rng, "flow", depth - 1, budget)]}
            return {"w": "BoxAdapter", "kids": [self.gen_tree(rng, "box", depth - 1, budget)], "h": rng.randint(1, 4)}
        r = rng.random()
        if leaf and r < 0.07:
            return {"w": "GraphVScale", "labels": sorted({rng.randint(1, 4) for _ in range(rng.randint(1, 3))}), "top": rng.randint(4, 6)}
        if leaf and r < 0.15:
            return {"w": "BarGraph", "data": [rng.randrange(6) for _ in range(rng.randint(1, 4))], "top": rng.randint(3, 6)}
        if leaf and r < 0.3:
            return {"w": "SolidFill", "ch": rng.choice("#.")}
        if r < 0.3:
            return {"w": "Filler", "kids": [self.gen_tree(rng, "flow", depth - 1, budget)], "valign": rng.choice(["top", "middle", "bottom"])}
        if r < 0.55:
            return {"w": "ListBox", "kids": [self.gen_tree(rng, "flow", depth - 1, budget) for _ in range(rng.randint(1, 4))], "fw": rng.random() < 0.5}
        if r < 0.68:
            return {"w": "Frame", "kids": [self.gen_tree(rng, "box", depth - 1, budget), self.gen_tree(rng, "flow", 0, budget), self.gen_tree(rng, "flow", 0, budget)], "fp": rng.choice(["body", "header", "footer"])}
        if r < 0.74:
            return {"w": "Overlay", "kids": [self.gen_tree(rng, "box", depth - 1, budget), self.gen_tree(rng, "box", depth - 1, budget)]}
        if r < 0.82:
            return {"w": "Scrollable", "kids": [self.gen_tree(rng, "flow", depth - 1, budget)]}
        if r < 0.88:
            return {"w": "ScrollBar", "kids": [{"w": "Scrollable", "kids": [self.gen_tree(rng, "flow", depth - 1, budget)]}]}
        if r < 0.94:
            return {"w": rng.choice(["AttrMap", "LineBox", "Padding", "WidgetPlaceholder"]), "kids": [self.gen_tree(rng, "box", depth - 1, budget)], "left": 1, "right": 0}
        return {"w": "SolidFill", "ch": "#"}

    def rand_path(self, rng: random.Random) -> list[int]:
        return [rng.randrange(4) for _ in range(rng.choice([0, 0, 1, 1, 2, 3]))]

    def gen_pager(self, rng: random.Random) -> dict:
        """A pager: a ListBox of a few items some of which are taller than the view, paged and scrolled at one size with
        every frame kept alive (as a screen keeps the last one) - the list's scroll position is the only thing that
        changes between frames."""
        long_text = "\n".join(f"line {i} of a long paragraph" for i in range(rng.choice([6, 14, 30])))
        kids = []
        for _ in range(rng.randint(1, 3)):
            q = rng.random()
            if q < 0.6:
                kids.append({"w": "Text", "text": long_text if rng.random() < 0.8 else "short", "wrap": rng.choice(["space", "any"]), "align": "left"})
            elif q < 0.8:
                kids.append({"w": "Button", "label": "ok"})
            else:
                kids.append({"w": "Edit", "caption": "", "text": long_text.replace("\n", " "), "multiline": True})
        tree = {"w": "ListBox", "kids": kids, "fw": rng.random() < 0.7}
        if rng.random() < 0.3:
            tree = {"w": rng.choice(["AttrMap", "LineBox", "Padding"]), "kids": [tree], "left": 1, "right": 0}
        c0, r0 = rng.choice([2, 3, 4]), rng.randrange(len(ROWS))
        ops = [{"op": "render", "path": [], "c": c0, "r": r0, "focus": True, "hold": True}]
        for _ in range(rng.randint(2, 10)):
            q = rng.random()
            if q < 0.7:
                ops.append({"op": "key", "k": KEYS.index(rng.choice(["page down", "page down", "page up", "down", "up", "home", "end"])), "c": c0, "r": r0})
            elif q < 0.85:
                ops.append({"op": "mutate", "path": [0] if tree["w"] != "ListBox" else [], "m": 0, "t": 0, "i": 0, "sf": rng.choice([-5, -2, -1, 0, 1, 2]), "c": c0, "r": r0})
                if rng.random() < 0.3:
                    del ops[-1]["sf"]
                    ops[-1]["va"] = rng.randrange(len(VALIGN_REQUESTS))
            else:
                ops.append({"op": "mouse", "x": rng.randrange(9), "y": rng.randrange(10), "c": c0, "r": r0})
            if rng.random() < 0.8:
                ops.append({"op": "render", "path": [], "c": c0, "r": r0, "focus": True, "hold": True})
        ops.append({"op": "render", "path": [], "c": c0, "r": r0, "focus": True})
        return {"tree": tree, "ops": ops}

    def generate(self, rng: random.Random, tier: str) -> dict:
        if rng.random() < 0.06:
            return self.gen_pager(rng)
        tree = self.gen_tree(rng, "box" if rng.random() < 0.75 else "flow", 3, [12])
        ops = []
        c0, r0 = rng.randrange(len(COLS)), rng.randrange(len(ROWS))
        for _ in range(rng.randint(2, 25)):
            r = rng.random()
            c, rr = (c0, r0) if rng.random() < 0.75 else (rng.randrange(len(COLS)), rng.randrange(len(ROWS)))
            if r < 0.34:
                ops.append({"op": "render", "path": self.rand_path(rng) if rng.random() < 0.45 else [], "c": c, "r": rr, "focus": rng.random() < 0.6, "hold": rng.random() < 0.5})
            elif r < 0.42:
                ops.append({"op": "rows", "path": self.rand_path(rng), "c": c, "focus": rng.random() < 0.5})
            elif r < 0.70:
                op = {"op": "mutate", "path": self.rand_path(rng), "m": rng.randrange(12), "t": rng.randrange(8), "i": rng.randrange(5)}
                if rng.random() < 0.5:
                    op["new"] = self.gen_tree(rng, "flow", 1, [3])
                ops.append(op)
            elif r < 0.80:
                ops.append({"op": "key", "k": rng.randrange(len(KEYS)), "c": c, "r": rr})
            elif r < 0.85:
                ops.append({"op": "mouse", "x": rng.randrange(25), "y": rng.randrange(10), "c": c, "r": rr})
            elif r < 0.93:
                ops.append({"op": "drop", "i": rng.randrange(4)})
            else:
                ops.append({"op": "collect"})
        ops.append({"op": "render", "path": [], "c": c0, "r": r0, "focus": True})
        return {"tree": tree, "ops": ops}

    def execute(self, scen: dict) -> Result:
        res = Result()
        run = _Run(scen, res)
        res.digest = run.run()
        if run.log.keep:
            res.info["log"] = run.log.lines
        return res

    def simplify(self, scen: dict):
        # replace subtrees by a plain Text / SolidFill
        def variants(spec, kind):
            if spec["w"] not in ("Text", "SolidFill"):
                yield {"w": "Text", "text": "t"} if kind == "flow" else {"w": "SolidFill"}
            for i, k in enumerate(spec.get("kids", [])):
                ck = "flow"
                if spec["w"] in ("BoxAdapter", "Overlay", "ScrollBar") or (spec["w"] == "Frame" and i == 0):
                    ck = "box"
                elif spec["w"] in ("Padding", "AttrMap", "LineBox", "WidgetPlaceholder"):
                    ck = kind
                for v in variants(k, ck):
                    kids = list(spec["kids"])
                    kids[i] = v
                    yield dict(spec, kids=kids)
                if spec["w"] in ("Pile", "Columns", "GridFlow", "ListBox") and len(spec["kids"]) > 1:
                    yield dict(spec, kids=spec["kids"][:i] + spec["kids"][i + 1 :])

        root_kind = "flow" if scen["tree"]["w"] in FLOW_LEAVES + ("Pile", "Columns", "GridFlow", "BoxAdapter") else "box"
        for v in variants(scen["tree"], root_kind):
            yield dict(scen, tree=v)
        for i, op in enumerate(scen["ops"]):
            if op.get("new"):
                ops = list(scen["ops"])
                ops[i] = {k: v for k, v in op.items() if k != "new"}
                yield dict(scen, ops=ops)
            if op.get("hold"):
                ops = list(scen["ops"])
                ops[i] = dict(op, hold=False)
                yield dict(scen, ops=ops)


ENGINE = CacheEngine()
