"""C12 - MainLoop delivers input in order and always restores the terminal   (engine `session`)

The whole stack runs real: MainLoop + posix raw Screen on a fake tty + each of the six event
loops (plus the screen-without-external-loop path), a recording topmost widget, RefTerm as the
user's terminal.  For every sampled session the check first runs it fault-free, counts the
invocations of every callback category, and then re-runs the session once for EVERY invocation
index of every category and each exception kind (crash-point enumeration).
"""

from __future__ import annotations

import contextlib
import hashlib
import io
import os
import random
import signal

from simkit import core, loops
from simkit import world as W
from simkit.core import Livelock, Quiescent
from simkit.refterm import PLAIN, RefTerm
from simkit.runner import Engine, Result

P = "C12"
LONG = 0.01
CATS = ("filter", "keypress", "mouse", "unhandled", "alarm", "watch_file", "watch_pipe", "render", "idle")
EXCS = ("exit", "value", "boom", "kbint")
SIGSET = (signal.SIGWINCH, signal.SIGTSTP, signal.SIGCONT)


class Boom(Exception):
    pass


def _app_handler(signum, frame):  # an application's own handler
    return None


HANDLER_CHOICES = {"default": signal.SIG_DFL, "ignore": signal.SIG_IGN, "func": _app_handler}


class _Inject(Exception):
    pass


def _group_contains(group, exc) -> bool:
    return any(e is exc or (isinstance(e, BaseExceptionGroup) and _group_contains(e, exc)) for e in group.exceptions)


_CLASSES = None


def _classes() -> dict:
    """The recording widget classes and the screen variant, made ONCE per process: urwid's metaclasses register every
    widget class in a process-global table for ever, so classes defined per session would keep every session alive (the
    thorough tier leaked gigabytes that way).  The running session is reached through `sess_holder[0]`."""
    global _CLASSES  # noqa: PLW0603
    if _CLASSES is not None:
        return _CLASSES
    import urwid  # noqa: PLC0415
    from urwid.display import _posix_raw_display as prd  # noqa: PLC0415

    holder = [None]

    class Rec(urwid.WidgetWrap):
        _sizing = frozenset(["box"])
        sess_holder = holder

        def __init__(self, w, tag, sel=True):
            self.tag = tag
            self.sel = sel
            super().__init__(w)

        def selectable(self):
            return self.sel

        def keypress(self, size, key):
            sess = holder[0]
            sess.point("keypress")
            # (an unselectable page must not be offered keys at all; if it is, the call is recorded and the key
            # handed back)
            rv = super().keypress(size, key) if self.sel else key
            if rv == "B":
                # a widget may pass on a DIFFERENT key than it was given (a vi-keys wrapper does): the
                # unhandled-input handler must see what the widget returned
                rv = "translated B"
                sess.res.probe("widget_returned_a_different_key")
            sess.calls.append(("keypress", key, rv, tuple(size), self.tag))
            return rv

        def mouse_event(self, size, event, button, col, row, focus):
            sess = holder[0]
            sess.point("mouse")
            rv = self._w.mouse_event(size, event, button, col, row, focus)
            sess.calls.append(("mouse", (event, button, col, row), bool(rv), tuple(size), self.tag))
            return rv

        def render(self, size, focus=False):
            sess = holder[0]
            if not sess.harness_render:
                sess.point("render")
            return super().render(size, focus)

    class PopRec(urwid.WidgetWrap):
        _sizing = frozenset(["box"])

        def __init__(self, launcher):
            self.launcher = launcher
            super().__init__(urwid.Filler(urwid.Edit("pop:", "")))

        def selectable(self):
            return True

        def keypress(self, size, key):
            sess = holder[0]
            sess.point("keypress")
            if key == "c":
                sess.calls.append(("close",))
                self.launcher.close_pop_up()
                rv = None
            else:
                rv = super().keypress(size, key)
            sess.calls.append(("keypress", key, rv, tuple(size), "popup"))
            return rv

        def mouse_event(self, size, event, button, col, row, focus):
            sess = holder[0]
            sess.point("mouse")
            rv = self._w.mouse_event(size, event, button, col, row, focus)
            sess.calls.append(("mouse", (event, button, col, row), bool(rv), tuple(size), "popup"))
            return rv

    class Launch(urwid.PopUpLauncher):
        def __init__(self, i):
            super().__init__(urwid.Button(f"p{i}"))

        def keypress(self, size, key):
            if key == "o":
                holder[0].calls.append(("open",))
                self.open_pop_up()
                return None
            return super().keypress(size, key)

        def create_pop_up(self):
            sess = holder[0]
            if sess.scen.get("run_seed", 0) % 2 == 0:
                # half of the sessions keep their pop-up (a cached menu or dialog) and show the same object again
                if getattr(self, "_kept", None) is None or self._kept_for is not sess:
                    self._kept, self._kept_for = PopRec(self), sess
                else:
                    sess.res.probe("same_popup_object_opened_again")
                return self._kept
            return PopRec(self)

        def get_pop_up_parameters(self):
            return {"left": 0, "top": 1, "overlay_width": 12, "overlay_height": 3}

    class NoHookScreen(prd.Screen):
        @property
        def hook_event_loop(self):
            raise AttributeError("hook_event_loop")

    _CLASSES = {"Rec": Rec, "PopRec": PopRec, "Launch": Launch, "NoHookScreen": NoHookScreen}
    return _CLASSES


class _Session:
    """One run of one session (fault-free or with one injected exception)."""

    def __init__(self, scen: dict, res: Result, fault: dict | None, log_sink) -> None:
        self.scen = scen
        self.res = res
        self.fault = fault
        self.log_sink = log_sink
        self.counts = dict.fromkeys(CATS, 0)
        self.calls: list = []
        self.injected = None  # (exc object, cat, idx)
        self.second = None  # ExitMainLoop raised by a later callback of the same turn (fault key "then_exit")
        self.in_run = False
        self.harness_render = False
        self.quit_raised = False

    # ------------------------------------------------------------------------------------
    def violate(self, clause, sig, msg=""):
        f = self.fault
        cfg = self.scen["config"]
        where = cfg["loop"] if cfg["screen"] == "external" else "nohook-screen"
        if clause == "C12.3":
            tag = f" fault={f['cat']}/{'exit' if f['exc'] == 'exit' else 'baseexception' if f['exc'] == 'kbint' else 'exception'}" if f else " fault=none"
            full = f"{sig}{tag} loop={where}"
        elif clause == "C12.4":
            full = f"{sig} screen={cfg['screen']}"
        else:
            full = f"{sig} loop={where}"
        if f:
            msg = f"[fault {f}] {msg}"
        self.res.violate(P, clause, full, msg)
        self.world.log.add("violation", f"{clause} {sig}")

    def point(self, cat: str) -> None:
        """A callback of category `cat` is being invoked: count it, maybe raise."""
        i = self.counts[cat]
        self.counts[cat] = i + 1
        self.world.log.add("cb", [cat, i])
        if self.injected is not None and cat != "render":
            self.res.probe("callback_after_injection")
            if self.fault is not None and self.fault.get("then_exit") and self.second is None and not self.quit_raised and not isinstance(self.injected[0], (KeyboardInterrupt,)):
                # a callback the loop had already dequeued for the same turn still runs after the first exception and
                # ends the session "cleanly": the first, ordinary exception must still come out of run()
                import urwid  # noqa: PLC0415

                self.second = urwid.ExitMainLoop()
                self.world.log.add("inject", [cat, i, "exit-after-exception"])
                self.res.fault("raise_exit_after_exception_same_turn")
                raise self.second
        f = self.fault
        if self.quit_raised:
            return  # the session's own ExitMainLoop is already in flight: a second exception is unconstrained
        if f is not None and self.injected is None and f["cat"] == cat and f["idx"] == i:
            import urwid  # noqa: PLC0415

            ek = f["exc"]
            exc = (
                urwid.ExitMainLoop()
                if ek == "exit"
                else ValueError("injected")
                if ek == "value"
                else KeyboardInterrupt("injected")
                if ek == "kbint"
                else Boom("injected")
            )
            self.injected = (exc, cat, i, self.world.log.seq)
            self.world.log.add("inject", [cat, i, ek])
            self.res.fault(f"raise_{ek}_in_{cat}")
            raise exc

    # ------------------------------------------------------------------------------------
    def build_widget(self):
        import urwid  # noqa: PLC0415

        sess = self
        cfg = self.scen["config"]
        items = []
        for i, kind in enumerate(cfg.get("items", ["edit", "text", "button"])):
            if kind == "edit":
                items.append(urwid.Edit(f"e{i}:", "ab"))
            elif kind == "text":
                items.append(urwid.Text(f"line {i} " + "x" * (i * 3 % 11)))
            elif kind == "button":
                items.append(urwid.Button(f"b{i}"))
            elif kind == "check":
                items.append(urwid.CheckBox(f"c{i}"))
            elif kind == "popup":
                items.append(self.build_launcher(i))
            else:
                items.append(urwid.Divider("-"))
        self.status = urwid.Text("status")
        lb = urwid.ListBox(urwid.SimpleFocusListWalker(items))
        frame = urwid.Frame(lb, header=urwid.Text("hdr"), footer=self.status)
        self.inner = urwid.AttrMap(frame, "body")

        Rec = _classes()["Rec"]
        Rec.sess_holder[0] = sess  # (classes are made once per process: MetaSignals keeps every class for ever)

        # a second page the application switches to (loop.widget = ...) when it sees f6
        self.page2 = Rec(urwid.Filler(urwid.Edit("page2:", "")), "page2")
        # ... and a third one that takes no keys at all (a splash screen): f6 cycles base -> page2 -> splash -> base
        self.page3 = Rec(urwid.Filler(urwid.Text("splash")), "splash", sel=False)
        self.page1 = Rec(self.inner, "base")
        return self.page1

    def build_launcher(self, i: int):
        """A PopUpLauncher: key 'o' opens a pop-up (shown only when MainLoop was created with pop_ups=True),
        key 'c' inside the pop-up closes it.  Both sides record what reaches them."""
        import urwid  # noqa: PLC0415

        sess = self

        cl = _classes()
        cl["Rec"].sess_holder[0] = sess
        return cl["Launch"](i)

    # ------------------------------------------------------------------------------------
    def run(self) -> str:  # noqa: C901, PLR0912, PLR0915
        import urwid  # noqa: PLC0415
        from urwid.display import _posix_raw_display as prd  # noqa: PLC0415

        scen, res = self.scen, self.res
        cfg = scen["config"]
        w = self.world = W.World(tiebreak=cfg.get("tiebreak", ()))
        W.activate(w)
        W.install_main_loop_os()
        box = None
        init_handlers = {}
        saved_handlers = {s: signal.getsignal(s) for s in SIGSET}
        urwid.util.set_encoding("utf-8")
        urwid.CanvasCache.clear()  # (process-global: nothing of an earlier session may be found in it - or kept alive by it)
        try:
            for s, name in zip(SIGSET, cfg.get("handlers", ["default"] * 3)):
                signal.signal(s, HANDLER_CHOICES[name])
                init_handlers[s] = signal.getsignal(s)
            self.init_handlers = init_handlers
            w.on_self_signal = self.on_self_signal
            cols, rows = cfg["size"]
            tty = self.tty = W.SimTTY(w, "tty", cols, rows, variant=cfg.get("termios", 0))
            # which SIGWINCH the application has caught up with: it has asked the tty for its size after the last
            # one AND redrawn after asking (the raw display consumes its resize flag before it lets the resize settle
            # for resize_wait, so the flag alone does not tell)
            self.winch_count = 0
            self.last_winch_at = None
            self.size_query_at = 0
            self.rendered_since_query = True

            def on_query():
                self.size_query_at = self.winch_count
                self.rendered_since_query = False

            tty.on_winsz_query = on_query
            term = self.term = RefTerm(cols, rows)
            out = W.SimTTYOut(w, tty, term)
            out.bufsize = int(cfg.get("outbuf", 0))
            if out.bufsize:
                res.probe("buffered_output_stream")

            if cfg["screen"] == "external":
                screen = prd.Screen(input=W.SimTTYIn(tty), output=out, bracketed_paste_mode=cfg.get("paste", False), focus_reporting=cfg.get("focus", False))
            else:
                screen = _classes()["NoHookScreen"](input=W.SimTTYIn(tty), output=out, bracketed_paste_mode=cfg.get("paste", False), focus_reporting=cfg.get("focus", False))
            self.screen = screen
            if cfg.get("sigkeys_before"):
                # signal keys changed BEFORE the screen is started stay changed ("if this function is called after
                # start() ... the original settings will be restored"): the tty state at start() is the baseline
                screen.tty_signal_keys("undefined", None, None, None, "undefined", tty.fd)
                tty.initial_attrs = W._copy_attrs(tty.attrs)  # noqa: SLF001
                res.probe("signal_keys_changed_before_start")
            orig_clear = screen.clear

            def clear():
                self.calls.append(("clear",))
                return orig_clear()

            screen.clear = clear
            real_draw = screen.draw_screen

            def draw_screen(size, canvas):
                rv = real_draw(size, canvas)
                self.rendered_since_query = True  # a frame was handed to the display after the last size query
                return rv

            screen.draw_screen = draw_screen

            top = self.build_widget()

            def input_filter(keys, raw):
                self.point("filter")
                out_keys = [k for k in keys if k != "z"]  # the filter drops 'z'
                self.calls.append(("filter", list(keys), list(raw), list(out_keys)))
                return out_keys

            def unhandled(key):
                self.point("unhandled")
                self.calls.append(("unhandled", key))
                if key == "f8":
                    self.quit_raised = True
                    raise urwid.ExitMainLoop
                if key == "f5":
                    self.status.set_text("f5 seen")
                    return True
                if key == "f6":
                    # the application replaces its topmost widget from inside an input handler
                    pages = [self.page1, self.page2, self.page3]
                    ml.widget = pages[(pages.index(ml.widget) + 1) % 3]
                    self.res.probe("root_widget_replaced_from_handler")
                    return True
                return False

            ev = None
            if cfg["screen"] == "external":
                box = loops.make_loop(cfg["loop"], w)
                ev = box.loop
            palette = [("body", "light gray", "dark blue"), ("focus", "white", "dark red")]
            ml = self.ml = urwid.MainLoop(
                top,
                palette,
                screen=screen,
                handle_mouse=cfg.get("mouse", True),
                input_filter=input_filter,
                unhandled_input=unhandled,
                event_loop=ev,
                pop_ups=cfg.get("pop_ups", False),
            )
            self.topmost = ml._topmost_widget  # noqa: SLF001

            # ---- scripted environment ------------------------------------------------------
            alarm_handles = {}

            def make_alarm(aid, action):
                def cb(loop, data):
                    self.point("alarm")
                    self.do_action(action, alarm_handles)

                return cb

            pipe_fds = {}
            extra = {}
            for evn in scen["events"]:
                k = evn["ev"]
                t = float(evn.get("t", 0))
                if k == "bytes":
                    data = bytes.fromhex(evn["hex"])
                    w.schedule(t, f"tty<{evn['hex']}", lambda data=data: tty.feed(data))
                elif k == "sigwinch":

                    def winch(c=evn["cols"], r=evn["rows"]):
                        tty.cols, tty.rows = c, r
                        term.resize(c, r)
                        self.winch_count += 1
                        self.last_winch_at = w.clock.now
                        res.fault("sigwinch")
                        h = signal.getsignal(signal.SIGWINCH)
                        if callable(h):
                            h(signal.SIGWINCH, None)

                    w.schedule(t, f"sigwinch {evn['cols']}x{evn['rows']}", winch)
                elif k == "suspend":

                    def suspend():
                        # the user presses ctrl-Z: SIGTSTP reaches whatever handler is installed at that moment
                        h = signal.getsignal(signal.SIGTSTP)
                        res.fault("sigtstp")
                        w.log.add("sigtstp", "")
                        if callable(h):
                            h(signal.SIGTSTP, None)

                    w.schedule(t, "sigtstp", suspend)
                elif k == "alarm_in":
                    alarm_handles[evn["id"]] = ml.set_alarm_in(t, make_alarm(evn["id"], evn.get("do", "edit")))
                elif k == "alarm_at":
                    alarm_handles[evn["id"]] = ml.set_alarm_at(w.clock.now + t, make_alarm(evn["id"], evn.get("do", "edit")))
                elif k == "pipe" and cfg["screen"] == "external":
                    pid = evn["id"]
                    if pid not in pipe_fds:

                        def pipe_cb(data, pid=pid, ret=evn.get("ret")):
                            self.point("watch_pipe")
                            self.status.set_text(f"pipe {pid}: {len(data)}")
                            return False if ret == "false" else None

                        pipe_fds[pid] = ml.watch_pipe(pipe_cb)
                    w.schedule(t, f"pipe{pid}<", lambda pid=pid, n=evn.get("n", 1): os.write(pipe_fds[pid], b"p" * n))
                elif k == "file" and cfg["screen"] == "external":
                    fid = evn["id"]
                    if fid not in extra:
                        rd, _wr = W.make_pipe(w, f"file{fid}")
                        rd.nonblocking = True
                        extra[fid] = rd

                        def file_cb(rd=rd, fid=fid):
                            self.point("watch_file")
                            os.read(rd.fd, 4096)
                            self.status.set_text(f"file {fid}")

                        ml.watch_file(rd.fd, file_cb)
                    w.schedule(t, f"file{fid}<", lambda fid=fid, n=evn.get("n", 1): extra[fid].feed(b"f" * n))
            # the session always ends with the quit key (f8 -> unhandled_input raises ExitMainLoop)
            t_quit = max([float(e.get("t", 0)) for e in scen["events"]] + [0.0]) + 0.5
            w.schedule(t_quit, "tty<quit", lambda: tty.feed(b"\x1b[19~"))
            if cfg.get("extra_idle") and cfg["screen"] == "external":

                def idle_cb():
                    self.point("idle")

                ev.enter_idle(idle_cb)

            w.on_block = self.on_block
            w.log.add("cfg", [cfg["loop"], cfg["screen"], cfg["size"], bool(cfg.get("pop_ups")), repr(self.fault)])
            outcome = None
            self.in_run = True
            try:
                if cfg["loop"] == "twisted":
                    with contextlib.redirect_stdout(io.StringIO()):
                        ml.run()
                else:
                    ml.run()
                outcome = ("returned", None)
            except Quiescent:
                outcome = ("quiescent", None)
            except Livelock as e:
                outcome = ("livelock", e)
            except Exception as e:  # noqa: BLE001
                outcome = ("raised", e)
            except KeyboardInterrupt as e:
                if self.injected is None or e is not self.injected[0]:
                    raise
                outcome = ("raised", e)
            finally:
                self.in_run = False
            w.log.add("end", [outcome[0], type(outcome[1]).__name__ if outcome[1] is not None else ""])
            self.check_outcome(outcome)
            self.check_restored(init_handlers)
            if self.fault is None:
                self.check_order()
            ended_by_base_exception = self.injected is not None and isinstance(self.injected[0], KeyboardInterrupt)
            if cfg.get("rerun") and cfg["loop"] != "twisted" and outcome[0] in ("returned", "raised") and not res.violations and not ended_by_base_exception:
                # (not after a KeyboardInterrupt: it leaves the third-party loops where it struck, e.g. asyncio keeps the
                # handles it had already queued for that iteration, and what a later run() does with them is theirs)
                # The application runs the same MainLoop a second time (a Twisted reactor cannot restart): the screen
                # is started again, one more key arrives, the session quits, and everything must be restored again -
                # whatever ended the first run.
                res.probe("second_run_of_the_same_mainloop")
                w.log.add("rerun", [])
                self.injected, self.second, self.quit_raised, self.fault = None, None, False, None
                self.calls = []
                t_now = w.rel()
                w.schedule(t_now + 0.125, "tty<a (second run)", lambda: tty.feed(b"a"))
                w.schedule(t_now + 0.625, "tty<quit (second run)", lambda: tty.feed(b"\x1b[19~"))
                outcome2 = None
                self.in_run = True
                try:
                    ml.run()
                    outcome2 = ("returned", None)
                except Quiescent:
                    outcome2 = ("quiescent", None)
                except Livelock as e:
                    outcome2 = ("livelock", e)
                except Exception as e:  # noqa: BLE001
                    outcome2 = ("raised", e)
                finally:
                    self.in_run = False
                w.log.add("end2", [outcome2[0], type(outcome2[1]).__name__ if outcome2[1] is not None else ""])
                self.check_outcome(outcome2)
                self.check_restored(init_handlers)
                # (what the key decodes to is not judged: an escape sequence left incomplete by the first run is still pending)
            res.sim_time += w.rel()
            for k, v in w.faults.items():
                res.fault(k, v)
            for k, v in w.probes.items():
                res.probe(k, v)
        finally:
            try:
                if getattr(self, "screen", None) is not None and self.screen.started:
                    with contextlib.suppress(Exception):
                        self.screen.stop()
            finally:
                if box is not None:
                    box.cleanup()
                W.deactivate()
                loops.restore_asyncio_state()
                for s, h in saved_handlers.items():
                    signal.signal(s, h if h is not None else signal.SIG_DFL)
                urwid.CanvasCache.clear()
        if self.log_sink is not None:
            self.log_sink.extend(w.log.lines)
        return w.log.digest()

    def do_action(self, action: str, alarm_handles: dict) -> None:
        ml = self.ml
        if action == "edit":
            self.status.set_text(f"alarm {self.counts['alarm']}")
        elif action.startswith("set:"):
            secs = float(action[4:])

            def cb(loop, data):
                self.point("alarm")
                self.status.set_text("nested alarm")

            ml.set_alarm_in(secs, cb)
        elif action.startswith("remove:"):
            h = alarm_handles.get(int(action[7:]))
            if h is not None:
                ml.remove_alarm(h)
        elif action == "sigkeys":
            # the application unmaps the tty's signal keys while the screen is started: "the original settings will
            # be restored when stop() is called" (tty_signal_keys docstring); check_restored compares the termios state
            self.screen.tty_signal_keys("undefined", "undefined", "undefined", "undefined", "undefined", self.tty.fd)
            self.world.log.add("app", "tty_signal_keys")
            self.res.probe("signal_keys_changed_during_session")
        elif action in ("mouse_off", "mouse_on"):
            self.screen.set_mouse_tracking(action == "mouse_on")
            self.world.log.add("app", action)
            self.res.probe("mouse_tracking_toggled_during_session")
        elif action == "noop":
            pass

    # ------------------------------------------------------------------------------------
    def on_block(self, timeout) -> None:
        """Clause 2: the screen shows the current widget state whenever the loop really waits."""
        if not self.in_run or self.injected is not None:
            if self.in_run and self.injected is not None and (timeout is None or timeout > LONG):
                self.violate("C12.3", f"loop-keeps-waiting-after-injected-{self.injected[0].__class__.__name__}", "")
            return
        if timeout is not None and timeout <= LONG:
            return
        scr, ml, tty, term = self.screen, self.ml, self.tty, self.term
        if not scr.started:
            return
        if scr._resized or ml.screen_size is None or tuple(ml.screen_size) != (tty.cols, tty.rows) or self.size_query_at != self.winch_count or not self.rendered_since_query:  # noqa: SLF001
            self.res.probe("block_with_resize_pending")
            # bounded progress: a window change or a resume must lead to a fresh size query and a redraw; a second after
            # the last one (eight times the display's resize_wait) the loop may not be waiting with that still undone
            if self.last_winch_at is not None and self.world.clock.now - self.last_winch_at > 1.0:
                self.violate("C12.2", "window-change-or-resume-not-followed-by-a-redraw", f"{self.world.clock.now - self.last_winch_at:.3f} s after the last SIGWINCH / SIGCONT the loop waits (timeout {timeout}) without having asked for the size and redrawn")
            return
        if (term.cols, term.rows) != (tty.cols, tty.rows):
            return
        size = (tty.cols, tty.rows)
        self.harness_render = True
        try:
            canv = self.ml._topmost_widget.render(size, focus=True)  # noqa: SLF001
        except Exception as e:  # noqa: BLE001
            self.harness_render = False
            self.violate("C12.2", f"fresh-render-raised:{core.exc_signature(e)}", core.format_exc(e))
            return
        self.harness_render = False
        want = [b"".join(seg for _a, _cs, seg in row).decode("utf-8", "replace") for row in canv.content()]
        got = term.dump()
        self.res.probe("redraw_checked_at_wait")
        if got != want:
            for y, (g, x) in enumerate(zip(got, want)):
                if g != x:
                    self.violate("C12.2", "screen-stale-when-loop-waits", f"row {y}: terminal {g!r} widget {x!r} (timeout {timeout})")
                    break
            return
        cur = canv.cursor
        if cur is None:
            if term.cursor_visible:
                self.violate("C12.2", "cursor-visible-but-widget-has-none", "")
        elif not term.cursor_visible or (term.x, term.y) != tuple(cur):
            self.violate("C12.2", "cursor-misplaced-when-loop-waits", f"terminal {(term.x, term.y, term.cursor_visible)} widget {cur}")

    # ------------------------------------------------------------------------------------
    def check_outcome(self, outcome) -> None:
        how, exc = outcome
        if how == "livelock":
            self.violate("C12.3", "livelock", str(exc))
            return
        if how == "quiescent":
            self.violate("C12.3", "run-never-ended:loop-went-quiescent", "")
            return
        if self.injected is None:
            if how == "raised":
                import urwid  # noqa: PLC0415

                if isinstance(exc, urwid.ExitMainLoop):
                    self.violate("C12.3", "ExitMainLoop-propagated-out-of-run", "the session's own quit")
                    return
                if core.raised_in_harness(exc):
                    raise core.HarnessError(f"harness exception inside run(): {core.format_exc(exc)}") from exc
                self.violate("C12.3", f"run-raised-uninjected:{core.exc_signature(exc)}", core.format_exc(exc))
            return
        inj = self.injected[0]
        import urwid  # noqa: PLC0415

        if isinstance(inj, urwid.ExitMainLoop):
            if how == "raised":
                if exc is inj:
                    self.violate("C12.3", "ExitMainLoop-propagated-out-of-run", "")
                else:
                    self.violate("C12.3", f"run-raised-other:{core.exc_signature(exc)}", core.format_exc(exc))
        elif how == "returned":
            self.violate("C12.3", "injected-exception-swallowed" + ("-after-a-later-callback-raised-ExitMainLoop" if self.second is not None else ""), repr(inj))
        elif self.second is not None and isinstance(exc, BaseExceptionGroup) and _group_contains(exc, inj):
            self.res.probe("two_exceptions_reported_as_group")  # trio reports concurrent failures together
        elif exc is not inj:
            if core.raised_in_harness(exc) and not isinstance(exc, (Boom, ValueError, KeyboardInterrupt)):
                raise core.HarnessError(f"harness exception inside run(): {core.format_exc(exc)}") from exc
            self.violate("C12.3", f"run-raised-other:{core.exc_signature(exc)}", core.format_exc(exc))

    def on_self_signal(self, sig) -> None:
        """os.kill(os.getpid(), sig): urwid's SIGTSTP handler has stopped the screen and re-raises the signal so that the
        process really stops.  While it is stopped the shell owns the terminal: it must be in its initial modes (the
        restoration clause, at a point where run() has not ended).  The shell prints its job notice, then the user
        types `fg`: SIGCONT is delivered to the handler installed at that moment."""
        if sig not in (signal.SIGTSTP, signal.SIGSTOP):
            raise core.HarnessError(f"the program sent itself signal {sig}")
        prev = signal.getsignal(sig) if sig == signal.SIGTSTP else None
        self.world.log.add("self-signal", int(sig))
        if callable(prev):
            prev(sig, None)  # the application's own handler decides; nothing stops the process
            self.res.probe("sigtstp_passed_to_application_handler")
        else:
            self.check_restored(self.init_handlers, suspended=True)
            self.res.probe("process_suspended")
            self.term.feed("\r\n[1]+  Stopped\r\n$ fg\r\n")
        self.winch_count += 1  # resuming forces a redraw like a resize does
        self.last_winch_at = self.world.clock.now
        h = signal.getsignal(signal.SIGCONT)
        self.world.log.add("sigcont", "")
        if callable(h):
            h(signal.SIGCONT, None)

    def check_restored(self, init_handlers, suspended: bool = False) -> None:
        scr, term, tty = self.screen, self.term, self.tty
        bad = []
        if scr.started:
            bad.append("screen-still-started")
        if term.on_alt:
            bad.append("alternate-buffer-active")
        if not term.cursor_visible:
            bad.append("cursor-hidden")
        for m in (1000, 1002, 1006):
            if m in term.modes:
                bad.append(f"mouse-mode-{m}-on")
        if 2004 in term.modes:
            bad.append("bracketed-paste-on")
        if 1004 in term.modes:
            bad.append("focus-reporting-on")
        if term.insert:
            bad.append("insert-mode-on")
        if term.shift != 0:
            bad.append("G1-shifted-in")
        if term.ibmpc:
            bad.append("ibmpc-font-on")
        if term.attr != PLAIN:
            bad.append("sgr-not-reset")
        if tty.attrs != tty.initial_attrs:
            bad.append("termios-not-restored")
        for s in SIGSET:
            if suspended and s == signal.SIGCONT:
                continue  # urwid's own handler waits for the resume
            if signal.getsignal(s) is not init_handlers[s] and signal.getsignal(s) != init_handlers[s]:
                bad.append(f"{signal.Signals(s).name}-handler-not-restored")
        if bad:
            self.violate("C12.4", ("not-restored-while-suspended:" if suspended else "not-restored:") + ",".join(bad), "while the process is stopped (ctrl-Z)" if suspended else f"after {self.injected[1] if self.injected else 'normal exit'}")
        elif suspended:
            self.res.probe("restoration_checked_while_suspended")
        else:
            self.res.probe("restoration_checked")

    def check_order(self) -> None:  # noqa: C901, PLR0911, PLR0912, PLR0915
        """Clause 1 on the fault-free run: filter -> topmost widget -> unhandled, batch by batch.  The topmost
        widget is the pop-up while one is shown (MainLoop created with pop_ups=True, opened by an EARLIER input
        event - also one of the same batch) and the application's widget otherwise."""
        from urwid.command_map import Command, command_map  # noqa: PLC0415

        calls = [c for c in self.calls]
        i = 0
        n = len(calls)
        sent = b"".join(bytes.fromhex(e["hex"]) for e in self.scen["events"] if e["ev"] == "bytes") + b"\x1b[19~"
        raw_all = []
        launcher_open = False  # model: the launcher (part of page 1) has an open pop-up
        page = "base"  # model: which page is loop.widget
        can_show = bool(self.scen["config"].get("pop_ups"))
        while i < n:
            c = calls[i]
            if c[0] == "clear":
                i += 1
                continue
            if c[0] != "filter":
                self.violate("C12.1", f"call-outside-a-filter-batch:{c[0]}", repr(c))
                return
            _, _keys_in, raw, keys_out = c
            raw_all.extend(raw)
            i += 1
            swapped_in_batch = False
            for key in keys_out:
                if key == "window resize":
                    continue
                # open/close markers are recorded by the handling widget before its own call record
                marks = []
                while i < n and calls[i][0] in ("open", "close"):
                    marks.append(calls[i][0])
                    i += 1
                is_mouse = not isinstance(key, str)
                if swapped_in_batch:
                    self.res.probe("input_after_root_swap_in_same_batch")
                pop_shown = launcher_open and can_show and page == "base"
                c = calls[i] if i < n else None
                if not is_mouse and page == "splash" and not pop_shown:
                    # the topmost widget is not selectable: the key is not offered to it and is unhandled as it is
                    if c is not None and c[0] == "keypress":
                        self.violate("C12.1", "key-offered-to-unselectable-topmost-widget", f"{key!r}: {c!r}")
                        return
                    handled, ukey = False, key
                    self.res.probe("key_with_unselectable_topmost_widget")
                elif is_mouse and pop_shown and (c is None or c[0] != "mouse"):
                    # a pointer event outside the pop-up: the overlay offers it to nobody and reports it unhandled
                    handled, ukey = False, key
                    self.res.probe("mouse_outside_open_popup")
                else:
                    if c is None:
                        self.violate("C12.1", "key-never-offered-to-widget", repr(key))
                        return
                    want_who = "popup" if pop_shown else page
                    if not is_mouse:
                        if c[0] != "keypress" or c[1] != key:
                            self.violate("C12.1", "widget-call-out-of-order", f"expected keypress {key!r}, got {c!r}")
                            return
                        handled = not c[2]
                        ukey = c[2]
                    else:
                        same = tuple(c[1]) == tuple(key) if c[0] == "mouse" and c[4] == "base" else c[0] == "mouse" and tuple(c[1][:2]) == tuple(key[:2])
                        if not same:
                            self.violate("C12.1", "widget-call-out-of-order", f"expected mouse {key!r}, got {c!r}")
                            return
                        handled = bool(c[2])
                        ukey = key
                    if c[4] != want_who:
                        self.violate("C12.1", f"input-not-routed-to-topmost-widget:{c[4]}-instead-of-{want_who}", f"{key!r} went to the {c[4]} widget while the topmost widget was the {want_who} one; call {c!r}")
                        return
                    if pop_shown:
                        self.res.probe("input_routed_to_open_popup")
                    i += 1
                for m in marks:
                    if m == "open":
                        if can_show and not launcher_open:
                            self.res.probe("popup_opened")
                        launcher_open = True
                    elif m == "close":
                        launcher_open = False
                if handled:
                    if i < n and calls[i][0] == "unhandled" and calls[i][1] == key:
                        self.violate("C12.1", "unhandled-called-for-handled-input", repr(key))
                        return
                    continue
                if isinstance(ukey, str) and command_map[ukey] == Command.REDRAW_SCREEN:
                    if i >= n or calls[i][0] != "clear":
                        self.violate("C12.1", "redraw-command-did-not-clear-screen", repr(ukey))
                        return
                    i += 1
                    continue
                if i >= n or calls[i][0] != "unhandled" or calls[i][1] != ukey:
                    self.violate("C12.1", "unhandled-not-called-for-unhandled-input", f"{ukey!r}; next call {calls[i] if i < n else None!r}")
                    return
                i += 1
                if ukey == "f6":
                    page = {"base": "page2", "page2": "splash", "splash": "base"}[page]
                    swapped_in_batch = True
                if ukey == "f8":
                    break
        got = bytes(b & 0xFF for b in raw_all)
        if not sent.startswith(got):
            self.violate("C12.1", "raw-input-not-in-arrival-order", f"sent {sent.hex()} got {got.hex()}")
        else:
            self.res.probe("order_checked")


KEYS = {
    "a": "61", "z": "7a", "B": "42", "up": "1b5b41", "down": "1b5b42", "enter": "0d", "tab": "09", "f5": "1b5b31357e",
    "ctrl l": "0c", "left": "1b5b44", "right": "1b5b43", "page down": "1b5b367e", "esc-a": "1b61", "backspace": "7f", "e-acute": "c3a9",
    "o": "6f", "c": "63", "f6": "1b5b31377e",
}  # fmt: skip


def sgr_press(x: int, y: int, release: bool = False) -> str:
    return f"\x1b[<0;{x + 1};{y + 1}{'m' if release else 'M'}".encode().hex()


class SessionEngine(Engine):
    prop = P
    name = "session"
    level = "fault_enumeration"
    tiers = {"quick": 400, "thorough": 8000}
    rule = (
        "per sampled session (3-20 external events: key/mouse byte sequences, some fragmented, resizes, alarms set before "
        "the run and from alarm callbacks, watch_pipe writes, watch_file arrivals, final quit key; loop kind x screen with/"
        "without external-loop support x pop_ups x mouse x bracketed paste x focus reporting x termios variant x initial "
        "signal handlers) the session is run fault-free, the invocations of each callback category (filter, keypress, mouse, "
        "unhandled, alarm, watch_file, watch_pipe, render, idle) are counted, and it is re-run once for EVERY invocation index "
        "of every category with each of ExitMainLoop / ValueError / private exception (capped per session in the quick tier). "
        "evaluations = sessions; non-trivial = at least one injected exception actually fired; distinct = distinct digests "
        "over the logs of all runs of the session."
    )
    assumptions = [
        "RefTerm (simkit/refterm.py) models the user's terminal; termios handling delegates to the real tty.cfmakecbreak on a fake attribute list",
        "SIGWINCH is delivered by calling the installed handler at a scheduled instant; the SIGTSTP/SIGCONT suspend cycle is not simulated",
        "callbacks the loop had already dequeued when an exception is raised may still run (not checked)",
        "clause 2 compares text and cursor (attributes are C04's business)",
    ]
    components = {
        "real": ["MainLoop", "_posix_raw_display.Screen", "six event loops", "widgets (Frame/ListBox/Edit/Button/...)", "PopUpTarget"],
        "stub": ["tty + termios list", "resize socket pair", "os.pipe for watch_pipe", "selectors/poller/asyncio step/trio fd wait", "clock", "terminal (RefTerm)"],
    }
    required_probes = ("restoration_checked", "order_checked", "redraw_checked_at_wait", "block_with_resize_pending", "popup_opened", "input_routed_to_open_popup", "root_widget_replaced_from_handler", "input_after_root_swap_in_same_batch", "widget_returned_a_different_key", "second_run_of_the_same_mainloop", "process_suspended", "key_with_unselectable_topmost_widget", "same_popup_object_opened_again")
    selftest_n = 240
    reducible = ("events",)

    def generate(self, rng: random.Random, tier: str) -> dict:
        screen = "external" if rng.random() < 0.8 else "nohook"
        loop = rng.choice(loops.KINDS) if screen == "external" else "select"
        cols, rows = rng.choice([(20, 6), (30, 8), (40, 12), (10, 4), (80, 24)])
        cfg = {
            "loop": loop,
            "screen": screen,
            "size": [cols, rows],
            "pop_ups": rng.random() < 0.3,
            "mouse": rng.random() < 0.7,
            "paste": rng.random() < 0.3,
            "focus": rng.random() < 0.3,
            "termios": rng.randrange(4),
            "sigkeys_before": rng.random() < 0.08,
            "handlers": [rng.choice(["default", "default", "ignore", "func"]) for _ in range(3)],
            "tiebreak": [rng.randrange(4) for _ in range(8)],
            "items": [rng.choice(["edit", "text", "button", "check", "div", "popup"]) for _ in range(rng.randint(1, 5))],
            "extra_idle": rng.random() < 0.3,
            "outbuf": rng.choice([0, 0, 256, 1 << 16]),
            "rerun": rng.random() < 0.25,
        }
        if rng.random() < 0.35:
            cfg["items"][0] = "popup"  # the launcher has the focus from the start
        events = []
        t = 0.125
        n = rng.randint(2, 12)
        aid = 0
        for _ in range(n):
            t += rng.choice([0.0, 1 / 1024, 0.0625, 0.125, 0.25, 0.5])
            r = rng.random()
            if r < 0.45:
                name = rng.choice(list(KEYS))
                if cfg["items"][0] == "popup" and rng.random() < 0.3:
                    name = rng.choice(["o", "o", "c"])
                hx = KEYS[name]
                if len(hx) > 2 and rng.random() < 0.3:
                    cut = rng.randrange(1, len(hx) // 2) * 2
                    events.append({"ev": "bytes", "t": t, "hex": hx[:cut]})
                    t += rng.choice([0.0, 1 / 1024, 0.0625])
                    events.append({"ev": "bytes", "t": t, "hex": hx[cut:]})
                elif rng.random() < (0.7 if name in ("f6", "o") else 0.3):
                    # several keys in one read: one input batch, no redraw in between
                    events.append({"ev": "bytes", "t": t, "hex": hx + "".join(KEYS[rng.choice(list(KEYS))] for _ in range(rng.randint(1, 2)))})
                else:
                    events.append({"ev": "bytes", "t": t, "hex": hx})
            elif r < 0.6 and (cfg["mouse"] or rng.random() < 0.5):
                # (mouse reports also arrive when MainLoop was told not to switch mouse reporting on: a terminal left in
                # mouse mode, an application that calls set_mouse_tracking() itself - they are input events all the same)
                x, y = rng.randrange(cols), rng.randrange(rows)
                events.append({"ev": "bytes", "t": t, "hex": sgr_press(x, y) + (sgr_press(x, y, True) if rng.random() < 0.5 else "")})
            elif r < 0.67:
                c2, r2 = rng.choice([(cols, rows), (cols + 5, rows), (cols, max(2, rows - 2)), (12, 5), (25, 9)])
                events.append({"ev": "sigwinch", "t": t, "cols": c2, "rows": r2})
            elif r < 0.7:
                events.append({"ev": "suspend", "t": t})
            elif r < 0.85:
                do = rng.choice(["edit", "edit", "noop", "set:0.125", "set:0", f"remove:{rng.randrange(aid + 1)}"])
                if rng.random() < 0.12:
                    do = rng.choice(["sigkeys", "mouse_off", "mouse_on"])
                events.append({"ev": rng.choice(["alarm_in", "alarm_in", "alarm_at"]), "t": t, "id": aid, "do": do})
                aid += 1
            elif r < 0.93:
                events.append({"ev": "pipe", "t": t, "id": rng.randrange(2), "n": rng.randint(1, 3), "ret": rng.choice([None, None, "false"])})
            else:
                events.append({"ev": "file", "t": t, "id": rng.randrange(2), "n": rng.randint(1, 3)})
        return {"config": cfg, "events": events, "faults": "enumerate", "fault_cap": 48 if tier == "quick" else 400}

    def execute(self, scen: dict) -> Result:
        res = Result()
        keep = bool(os.environ.get("VERIF_KEEP_LOG"))
        sink = [] if keep else None
        h = hashlib.sha256()
        h.update(repr(scen.get("run_seed", 0)).encode())
        faults = scen.get("faults", "enumerate")
        cfg = scen["config"]
        if faults == "enumerate" or faults is None or not faults or any(f is None for f in faults):
            base = _Session(scen, res, None, sink)
            h.update(base.run().encode())
            res.states.add(f"{cfg['loop']}/{cfg['screen']}/base")
        if faults == "enumerate":
            plan = []
            for cat in CATS:
                for idx in range(base.counts[cat]):
                    for ek in EXCS:
                        plan.append({"cat": cat, "idx": idx, "exc": ek})
            cap = int(scen.get("fault_cap", 48))
            if len(plan) > cap:
                # deterministic thinning: keep first and last index of each category, stride the rest
                stride = (len(plan) + cap - 1) // cap
                plan = plan[::stride]
            # double faults: an ordinary exception, then ExitMainLoop from the next callback that still runs
            for cat in ("alarm", "watch_file", "watch_pipe", "filter", "keypress", "unhandled"):
                if base.counts[cat]:
                    plan.append({"cat": cat, "idx": 0, "exc": "boom", "then_exit": True})
                    if base.counts[cat] > 1:
                        plan.append({"cat": cat, "idx": base.counts[cat] - 1, "exc": "value", "then_exit": True})
            faults = plan
        for f in faults or []:
            if f is None:
                continue
            s = _Session(scen, res, f, sink)
            h.update(s.run().encode())
            if s.injected is not None:
                res.nontrivial = True
                res.probe(f"fired_{f['cat']}_{cfg['loop'] if cfg['screen'] == 'external' else 'nohook'}")
                res.states.add(f"{cfg['loop']}/{cfg['screen']}/{f['cat']}/{min(f['idx'], 3)}/{f['exc']}")
        res.probe("runs_executed", 1 + len(faults or []))
        res.digest = h.hexdigest()
        if keep:
            res.info["log"] = sink
        return res

    def simplify(self, scen: dict):
        cfg = scen["config"]
        if scen.get("faults") == "enumerate":
            # try to pin the failing crash point
            yield dict(scen, faults=[None])
            for cat in CATS:
                for idx in range(12):
                    for ek in EXCS:
                        yield dict(scen, faults=[{"cat": cat, "idx": idx, "exc": ek}])
            return
        for fld, val in (("pop_ups", False), ("outbuf", 0), ("paste", False), ("focus", False), ("extra_idle", False), ("termios", 0), ("mouse", False)):
            if cfg.get(fld):
                yield dict(scen, config=dict(cfg, **{fld: val}))
        if cfg.get("handlers") != ["default"] * 3:
            yield dict(scen, config=dict(cfg, handlers=["default"] * 3))
        if len(cfg.get("items", [])) > 1:
            yield dict(scen, config=dict(cfg, items=cfg["items"][:1]))
        if any(cfg.get("tiebreak", [])):
            yield dict(scen, config=dict(cfg, tiebreak=[0] * 8))


ENGINE = SessionEngine()
